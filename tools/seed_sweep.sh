#!/bin/bash
# runs every seeded change against the check of its property (quick tier, or the targeted obligations listed here)
cd /verif
R=tools/run_seeds.sh
$R C02-closeupvals-no-base quick
$R C05-setglobalidx-no-invalidate quick --only O2e
$R C06-mixed-mod-unguarded quick --only O3a,O3b
$R C09-recycled-slot-uncharged quick --only O3alloc
$R C09-double-free-pushes-freelist quick --only O3free
$R C10-recycled-slot-uncharged quick --only O1manual
$R C10-string-budget-in-chars quick --only O1str
$R C13-enter-nogc-saturates quick
$R C04-callupval-stale-upvalues-len thorough --only S080
$R C20-forloop-lead-f4 thorough --only O1len4
$R C07-const-index-empty-pool quick
$R C04-callglobal-cache-word-off-by-one thorough --only V1_w2_k1
$R C05-lambda-slot-counter quick
$R C20-charlen-0xbf thorough --only O3len2
