#!/bin/bash
cd /verif
R=tools/run_seeds.sh
$R C13-exit-nogc-collects quick --only O1bexit
$R C10-budget-counts-heap-twice quick --only O1str,O1manual,O1elem
$R C10-string-budget-in-chars quick --only O1strmb
$R C02-compare-ge-float-int quick --only R016
$R C06-divffg-promotes-left-twice thorough --only P090
