#!/bin/bash
cd /verif
R=tools/run_seeds.sh
$R C09-read-i32-be-unsigned quick --only O4ri32be
$R C12-int-checked-drops-bit63 quick
$R C18-u16-as-4-bytes quick
$R C01-neg-float-zero-sign quick --only Unegf,Uint
