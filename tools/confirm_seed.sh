#!/bin/bash
# confirm a seeded change delivered by a sub-agent:  confirm_seed.sh <seed-id> <property> <worktree> <demo.rs> 
# (demo is a Rust integration test to be placed in aelys/tests/). Writes /verif/seeded/<seed-id>/.
set -u
ID=$1; PROP=$2; WT=$3; DEMO=$4
OUT=/verif/seeded/$ID; mkdir -p $OUT
export CARGO_NET_OFFLINE=true CARGO_TARGET_DIR=$WT/target
T=$(basename $DEMO .rs)
cd $WT || exit 2
LOG=$OUT/confirm.log; : > $LOG
cp $WT/DELIVER/patch.diff $OUT/patch.diff
mkdir -p $OUT/demo; cp -r $WT/DELIVER/demo/* $OUT/demo/; cp $WT/DELIVER/NOTES.md $OUT/NOTES.md 2>/dev/null
rm -f aelys/tests/$T.rs
# clean tree, then apply the delivered patch (proves patch.diff is what is in the tree)
git checkout -q -- . && git apply --check $OUT/patch.diff && git apply $OUT/patch.diff || { echo "PATCH-DOES-NOT-APPLY" | tee -a $LOG; exit 1; }
echo "== suite with patch" >> $LOG
cargo test --workspace --no-fail-fast --offline 2>&1 | grep -E "^test result|FAILED|panicked|error(\[|:)" > $OUT/suite_with_patch.txt
PASS=$(grep -E "^test result" $OUT/suite_with_patch.txt | sed -E 's/.* ([0-9]+) passed.*/\1/' | paste -sd+ | bc)
FAIL=$(grep -E "^test result" $OUT/suite_with_patch.txt | sed -E 's/.* ([0-9]+) failed.*/\1/' | paste -sd+ | bc)
echo "suite_with_patch passed=$PASS failed=$FAIL" | tee -a $LOG
cp $DEMO aelys/tests/$T.rs
cargo test --offline -p aelys --test $T 2>&1 | grep -E "^test |^test result" > $OUT/demo_with_patch.txt
rm -f aelys/tests/$T.rs
git checkout -q -- .
cp $DEMO aelys/tests/$T.rs
cargo test --offline -p aelys --test $T 2>&1 | grep -E "^test |^test result" > $OUT/demo_without_patch.txt
rm -f aelys/tests/$T.rs
W=$(grep -c "^test result: FAILED" $OUT/demo_with_patch.txt); WO=$(grep -c "^test result: ok" $OUT/demo_without_patch.txt)
echo "demo_with_patch_fails=$W demo_without_patch_passes=$WO" | tee -a $LOG
if [ "$FAIL" = "0" ] && [ "$PASS" -ge 1361 ] && [ "$W" = "1" ] && [ "$WO" = "1" ]; then echo CONFIRMED | tee -a $LOG; else echo NOT-CONFIRMED | tee -a $LOG; fi
