#!/usr/bin/env python3
"""Regenerates MANIFEST.json from lib/manifest_data.py (claims) so the file is always schema-valid."""
import json, os, sys, subprocess
V = os.path.dirname(os.path.dirname(os.path.abspath(__file__)))
sys.path.insert(0, os.path.join(V, "lib"))
import manifest_data as M
import obligations as OB

checks = []
for pid, c in M.CLAIMS.items():
    assert pid in OB.OBLIGATIONS, pid
    checks.append({
        "property_id": pid,
        "quick_cmd": "./check %s --tier quick" % pid,
        "thorough_cmd": "./check %s --tier thorough" % pid,
        "evidence_file": "/verif/evidence/%s.json" % pid,
        "replay_cmd_template": "./check --replay {path}",
        "engine": "kani-cbmc",
        "level_claimed": {"category": "model_checking", "text": c["text"], "design_ref": c["design_ref"]},
        "level_note": c["note"],
        "technique": c["technique"],
    })
na = [{"property_id": p, "reason": r} for p, r in M.NOT_APPLICABLE.items() if p not in M.CLAIMS]
all_ids = [json.loads(l)["id"] for l in open(os.path.join(V, "properties.jsonl"))]
missing = [p for p in all_ids if p not in M.CLAIMS and p not in M.NOT_APPLICABLE]
assert not missing, missing
man = {
    "version": 1,
    "setup_cmd": "./setup.sh",
    "hooks": M.HOOKS,
    "engines": [{"name": "kani-cbmc", "path": "/verif/check", "serves_properties": sorted(M.CLAIMS),
                 "kind_free_text": "Kani 0.68.0 harnesses (kani::any inputs) compiled from /repo's working tree, decided by CBMC 6.11.0 + CaDiCaL; driver /verif/check"}],
    "checks": checks,
    "notes": M.NOTES,
    "not_applicable": na,
}
json.dump(man, open(os.path.join(V, "MANIFEST.json"), "w"), indent=1)
try:
    import jsonschema
    jsonschema.validate(man, json.load(open("/root/.vp/MANIFEST.schema.json")))
    print("MANIFEST.json valid;", len(checks), "checks,", len(na), "not applicable")
except ImportError:
    print("written (jsonschema not importable here)")
