#!/bin/bash
# run the registered check of a seed's property against /repo with the seeded change applied, then undo it.
#   tools/run_seeds.sh <seed-id> [tier] [--only O1,O2]
# appends one line to seeded/RESULTS.md
cd /verif || exit 2
ID=$1; TIER=${2:-quick}; shift; shift
PROP=$(python3 -c "import json;print(json.load(open('seeded/$ID/meta.json'))['property'])")
[ -n "$(git -C /repo status --porcelain)" ] && { echo "/repo not clean"; exit 2; }
git -C /repo apply /verif/seeded/$ID/patch.diff || { echo "| $ID | $PROP | $TIER | patch does not apply | |" >> seeded/RESULTS.md; exit 1; }
OUT=.work/seed_$ID.$TIER.log
cp evidence/$PROP.json .work/evidence_$PROP.saved 2>/dev/null
./check $PROP --tier $TIER "$@" > $OUT 2>&1; RC=$?
git -C /repo checkout -- .
# the evidence file now describes the mutated tree: put back the one from the clean tree
[ -f .work/evidence_$PROP.saved ] && cp .work/evidence_$PROP.saved evidence/$PROP.json
V=$(grep -c "^VIOLATION" $OUT); OB=$(grep -E "violated" $OUT | sed -E 's/.*\[(C[0-9]+ [A-Za-z0-9_]+)\].*/\1/' | tr '\n' ' ')
echo "| $ID | $PROP | $TIER $* | exit=$RC violations=$V | $OB |" | tee -a seeded/RESULTS.md
