// witness programs against the real public API of /repo (plain cargo test, no Kani)
