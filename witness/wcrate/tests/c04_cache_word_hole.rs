//! C04 witness: verified bytecode whose control flow lands on an inline-cache word.
//! words = [Jump +2][CallGlobal r0,g0,0][cache word 1 = 0][cache word 2 = opcode 78 (CallGlobalMono)]
//! The verifier accepts it (it skips the two words after CallGlobal, and a jump target only has to be
//! inside the function).  Executing word 3 as CallGlobalMono reads its own "cache words" at indices 4 and 5
//! of a 4-word buffer.  Run under valgrind to see the invalid reads on the unfixed tree.
use aelys_bytecode::{Function, Value};
use aelys_runtime::VM;
use aelys_syntax::Source;

fn program() -> Function {
    let mut f = Function::new(Some("w".to_string()), 0);
    f.num_registers = 4;
    let jump = (18u32 << 24) | 2; // ip after fetch is 1; 1 + 2 = 3
    let callglobal = (77u32 << 24) | (0 << 16) | (0 << 8) | 0;
    let cw1 = 0u32;
    let cw2 = (78u32 << 24) | (0 << 16) | (0 << 8) | 0;
    f.set_bytecode(vec![jump, callglobal, cw1, cw2]);
    f
}

#[test]
fn landing_on_a_cache_word_is_reported_not_read_out_of_bounds() {
    let mut vm = VM::new(Source::new("w", "")).unwrap();
    let fr = vm.alloc_function(program()).unwrap();
    let r = vm.execute(fr);
    // either outcome is "a value or a reported runtime error"; what must not happen is the out-of-bounds read
    match r {
        Ok(v) => println!("value {:?}", v),
        Err(e) => println!("error kind: {:?}", e.kind),
    }
    let _ = Value::null();
}
