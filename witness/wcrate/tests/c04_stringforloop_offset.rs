//! C04/C20 witness: StringForLoop with an offset register that is not on a character boundary.
//! Verified bytecode (registers may hold anything): LoadK r2,k0("é") ; LoadI r1,1 ; StringForLoop r0,+0 ; Return0
use aelys_bytecode::{Function, Value};
use aelys_runtime::VM;
use aelys_syntax::Source;

#[test]
fn offset_inside_a_character_does_not_panic() {
    let mut vm = VM::new(Source::new("w", "")).unwrap();
    let s = vm.alloc_string("\u{e9}").unwrap();
    let mut f = Function::new(Some("w".to_string()), 0);
    f.num_registers = 4;
    f.constants = vec![Value::ptr(s.index())];
    let loadk = (2u32 << 24) | (2 << 16) | 0;
    let loadi = (1u32 << 24) | (1 << 16) | 1;
    let sfl = (177u32 << 24) | (0 << 16) | 0;
    let ret0 = 23u32 << 24;
    f.set_bytecode(vec![loadk, loadi, sfl, ret0]);
    let fr = vm.alloc_function(f).unwrap();
    let r = vm.execute(fr);
    println!("outcome: {:?}", r.map_err(|e| e.kind));
}
