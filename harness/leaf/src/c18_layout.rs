//! C18 — struct layouts follow the System V AMD64 C ABI.
//! The repository's air/src/layout.rs is re-instantiated here byte for byte (include!), so that the private
//! `struct_layout`, `align_to`, `resolved_layout`, `references_by_value` are callable from the harnesses below.
//! The three `crate::` names the file imports are re-exported at this crate's root.
#![allow(dead_code, unused_imports)]
include!("/repo/air/src/layout.rs");

use crate::{AirStructField, CallingConv, TypeParamId};

/// the 16 sized leaf types of AirType, by selector, with their SysV size/alignment written out independently
fn leaf_type(sel: u8) -> (AirType, u32, u32) {
    match sel {
        0 => (AirType::I8, 1, 1),
        1 => (AirType::U8, 1, 1),
        2 => (AirType::Bool, 1, 1),
        3 => (AirType::I16, 2, 2),
        4 => (AirType::U16, 2, 2),
        5 => (AirType::I32, 4, 4),
        6 => (AirType::U32, 4, 4),
        7 => (AirType::F32, 4, 4),
        8 => (AirType::I64, 8, 8),
        9 => (AirType::U64, 8, 8),
        10 => (AirType::F64, 8, 8),
        11 => (AirType::Str, 8, 8),
        12 => (AirType::Ptr(Box::new(AirType::I8)), 8, 8),
        13 => (AirType::Ptr(Box::new(AirType::Struct(String::new()))), 8, 8),
        _ => (AirType::Slice(Box::new(AirType::U8)), 16, 8),
    }
}

/// a symbolic field type: a leaf, or a fixed array of a leaf with 0..=4 elements; returns (type, C size, C align)
fn any_field_type() -> (AirType, u32, u32) {
    let sel: u8 = kani::any();
    kani::assume(sel <= 14);
    let (t, s, a) = leaf_type(sel);
    if kani::any() {
        let n: u64 = kani::any();
        kani::assume(n <= 4);
        (AirType::Array(Box::new(t), n), s * n as u32, a)
    } else {
        (t, s, a)
    }
}

fn mk_def(fields: Vec<AirStructField>) -> AirStructDef {
    AirStructDef { name: String::new(), type_params: Vec::new(), fields, is_closure_env: false, span: None }
}

fn fld(ty: AirType) -> AirStructField {
    AirStructField { name: String::new(), ty, offset: None }
}

/// declarative ABI rules, independent of the algorithm: every offset is the least multiple of the field's
/// alignment at or after the end of the previous field; struct alignment is the max field alignment (>= 1);
/// struct size is the least multiple of that alignment at or after the end of the last field.
fn check_abi(total: TypeLayout, offs: &[u32], sizes: &[u32], aligns: &[u32], k: usize) {
    assert!(offs.len() == k);
    let mut end: u32 = 0;
    let mut maxa: u32 = 1;
    let mut i = 0;
    while i < k {
        let a = aligns[i];
        assert!(offs[i] % a == 0);
        assert!(offs[i] >= end && offs[i] - end < a);
        end = offs[i] + sizes[i];
        if a > maxa {
            maxa = a;
        }
        i += 1;
    }
    assert!(total.align == maxa);
    assert!(total.size % total.align == 0);
    assert!(total.size >= end && total.size - end < total.align);
}

macro_rules! layout_k {
    ($name:ident, $k:expr) => {
        #[kani::proof]
        #[kani::stub(std::hash::RandomState::new, crate::stub_random_state)]
        #[kani::unwind(6)]
        fn $name() {
            let mut fields = Vec::with_capacity($k);
            let mut sizes = [0u32; 4];
            let mut aligns = [1u32; 4];
            let mut i = 0;
            while i < $k {
                let (t, s, a) = any_field_type();
                sizes[i] = s;
                aligns[i] = a;
                fields.push(fld(t));
                i += 1;
            }
            let def = mk_def(fields);
            let resolved: HashMap<String, TypeLayout> = HashMap::new();
            let (total, offs) = struct_layout(&def, &resolved);
            check_abi(total, &offs, &sizes, &aligns, $k);
            kani::cover!($k == 0 || total.size > 16, "REQ a struct larger than 16 bytes");
            kani::cover!($k == 0 || offs[$k - 1] > 8 || $k < 2, "REQ padding case reachable");
            std::mem::forget(def);
            std::mem::forget(offs);
            std::mem::forget(resolved);
        }
    };
}
layout_k!(c18_o1_fields0, 0);
layout_k!(c18_o1_fields1, 1);
layout_k!(c18_o1_fields2, 2);
layout_k!(c18_o1_fields3, 3);
layout_k!(c18_o1_fields4, 4);

/// O2: align_to(o, a) is the least multiple of a at or above o, for every power-of-two alignment the ABI uses
#[kani::proof]
fn c18_o2_align_to() {
    let o: u32 = kani::any();
    kani::assume(o < (1 << 31));
    let sh: u32 = kani::any();
    kani::assume(sh <= 4);
    let a = 1u32 << sh;
    let r = align_to(o, a);
    assert!(r % a == 0 && r >= o && r - o < a);
    kani::cover!(r != o, "REQ padding inserted");
}

/// O3: a struct nested by value (depth 1) takes the inner struct's computed size/alignment; the inner layout is
/// an arbitrary layout that itself satisfies the ABI invariant size % align == 0, align a power of two <= 16.
// NOT REGISTERED: > 900 s without a verdict (one insert + one get on HashMap<String, TypeLayout>); kept for the record.
#[cfg(any())]
#[kani::proof]
#[kani::stub(std::hash::RandomState::new, crate::stub_random_state)]
#[kani::unwind(8)]
fn c18_o3_nested_by_value() {
    let sh: u32 = kani::any();
    kani::assume(sh <= 4);
    let ia = 1u32 << sh;
    let isz: u32 = kani::any();
    kani::assume(isz <= 64 && isz % ia == 0);
    let mut resolved: HashMap<String, TypeLayout> = HashMap::new();
    resolved.insert(String::from("I"), TypeLayout { size: isz, align: ia });
    let (t0, s0, a0) = any_field_type();
    let (t2, s2, a2) = any_field_type();
    let n: u64 = kani::any();
    kani::assume(n >= 1 && n <= 3);
    let as_array: bool = kani::any();
    let inner = if as_array { AirType::Array(Box::new(AirType::Struct(String::from("I"))), n) } else { AirType::Struct(String::from("I")) };
    let s1 = if as_array { isz * n as u32 } else { isz };
    let def = mk_def(vec![fld(t0), fld(inner), fld(t2)]);
    let (total, offs) = struct_layout(&def, &resolved);
    check_abi(total, &offs, &[s0, s1, s2, 0], &[a0, ia, a2, 1], 3);
    kani::cover!(as_array && n == 3, "REQ array of structs");
    kani::cover!(!as_array && offs[2] > offs[1] + 8, "REQ nested struct followed by a field");
    std::mem::forget(def);
    std::mem::forget(offs);
    std::mem::forget(resolved);
}

/// O4: references_by_value(ty, name) iff the type mentions the struct outside a pointer (depth <= 2)
#[kani::proof]
#[kani::unwind(4)]
fn c18_o4_references_by_value() {
    let target_is_s: bool = kani::any();
    let mention_s: bool = kani::any();
    let shape: u8 = kani::any();
    kani::assume(shape <= 4);
    let nm = || if mention_s { String::from("S") } else { String::from("T") };
    let (ty, by_value) = match shape {
        0 => (AirType::Struct(nm()), true),
        1 => (AirType::Array(Box::new(AirType::Struct(nm())), kani::any()), true),
        2 => (AirType::Ptr(Box::new(AirType::Struct(nm()))), false),
        3 => (AirType::Array(Box::new(AirType::Array(Box::new(AirType::Struct(nm())), kani::any())), kani::any()), true),
        _ => (AirType::Array(Box::new(AirType::Ptr(Box::new(AirType::Struct(nm())))), kani::any()), false),
    };
    let target = if target_is_s { "S" } else { "T" };
    let expect = by_value && (mention_s == target_is_s);
    assert!(references_by_value(&ty, target) == expect);
    kani::cover!(expect, "REQ positive case");
    std::mem::forget(ty);
}
