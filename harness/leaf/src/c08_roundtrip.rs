//! C08 O1 — binary round trip of small functions through the real `serialize` / `deserialize` (public API).
//! Container shapes are concrete per harness; every scalar in them is symbolic.
use aelys_bytecode::asm::binary::{deserialize, serialize};
use aelys_bytecode::{Function, GlobalLayout, Heap, UpvalueDescriptor, Value};

/// a constant of one of the four immediate kinds, any payload (floats: any bit pattern, NaNs become the one NaN)
fn any_imm_const() -> Value {
    let sel: u8 = kani::any();
    kani::assume(sel <= 3);
    match sel {
        0 => Value::null(),
        1 => Value::bool(kani::any()),
        2 => {
            let n: i64 = kani::any();
            kani::assume(n >= Value::INT_MIN && n <= Value::INT_MAX);
            Value::int(n)
        }
        _ => Value::float(f64::from_bits(kani::any())),
    }
}

fn cold(word: u32) -> bool {
    // the writer rewrites CallGlobalMono->CallGlobal and zeroes the two words after CallGlobal/CallGlobalMono;
    // words with those opcodes are compared separately (c08_o1b)
    let op = (word >> 24) as u8;
    op != 77 && op != 78
}

fn same_fn_fields(a: &Function, b: &Function) {
    assert!(a.arity == b.arity && a.num_registers == b.num_registers);
    assert!(a.name.is_none() == b.name.is_none());
    assert!(a.constants.len() == b.constants.len());
    assert!(a.bytecode.len() == b.bytecode.len());
    assert!(a.upvalue_descriptors.len() == b.upvalue_descriptors.len());
    assert!(a.lines.len() == b.lines.len());
    assert!(a.nested_functions.len() == b.nested_functions.len());
}

macro_rules! roundtrip {
    ($name:ident, $nested:expr) => {
        #[kani::proof]
        #[kani::stub(std::hash::RandomState::new, crate::stub_random_state)]
        #[kani::stub(aelys_bytecode::GlobalLayout::empty, aelys_bytecode::GlobalLayout::verif_empty)]
        #[kani::unwind(7)]
        fn $name() {
            let heap = Heap::new();
            let mut f = Function::new(None, kani::any());
            f.num_registers = kani::any();
            let (w0, w1): (u32, u32) = (kani::any(), kani::any());
            kani::assume(cold(w0) && cold(w1));
            f.set_bytecode(vec![w0, w1]);
            let (k0, k1) = (any_imm_const(), any_imm_const());
            f.constants = vec![k0, k1];
            f.upvalue_descriptors = vec![UpvalueDescriptor { is_local: kani::any(), index: kani::any() }];
            f.lines = vec![(kani::any(), kani::any())];
            if $nested {
                let mut n = Function::new(None, kani::any());
                n.num_registers = kani::any();
                n.set_bytecode(vec![kani::any()]);
                kani::assume(cold(n.bytecode[0]));
                n.constants = vec![any_imm_const()];
                n.upvalue_descriptors = vec![UpvalueDescriptor { is_local: kani::any(), index: kani::any() }];
                f.nested_functions = vec![n];
                f.constants.push(Value::nested_fn_marker(0));
            }
            let bytes = serialize(&f, &heap);
            let back = deserialize(&bytes);
            // reading back what was written never fails
            assert!(back.is_ok());
            let (g, gheap) = back.ok().unwrap();
            same_fn_fields(&f, &g);
            assert!(g.bytecode[0] == w0 && g.bytecode[1] == w1);
            assert!(g.constants[0].raw_bits() == k0.raw_bits() && g.constants[1].raw_bits() == k1.raw_bits());
            assert!(g.upvalue_descriptors[0].is_local == f.upvalue_descriptors[0].is_local
                && g.upvalue_descriptors[0].index == f.upvalue_descriptors[0].index);
            assert!(g.lines[0] == f.lines[0]);
            if $nested {
                assert!(g.constants[2].as_nested_fn_marker() == Some(0));
                let (a, b) = (&f.nested_functions[0], &g.nested_functions[0]);
                same_fn_fields(a, b);
                assert!(a.bytecode[0] == b.bytecode[0]);
                assert!(a.constants[0].raw_bits() == b.constants[0].raw_bits());
                assert!(a.upvalue_descriptors[0].is_local == b.upvalue_descriptors[0].is_local
                    && a.upvalue_descriptors[0].index == b.upvalue_descriptors[0].index);
            }
            kani::cover!(k0.is_float() && k1.is_int(), "REQ float and int constants");
            kani::cover!(f.upvalue_descriptors[0].is_local && f.upvalue_descriptors[0].index >= f.num_registers, "REQ local capture above own register count");
            std::mem::forget(f); std::mem::forget(g); std::mem::forget(gheap); std::mem::forget(heap); std::mem::forget(bytes);
        }
    };
}
roundtrip!(c08_o1_roundtrip_flat, false);
roundtrip!(c08_o1_roundtrip_nested, true);

/// O1b: the documented cold-start rewrite: CallGlobalMono is written as CallGlobal with the same operands, and
/// a reloaded call site carries no resolved function pointer (cache word 1 is zero).
#[kani::proof]
#[kani::stub(std::hash::RandomState::new, crate::stub_random_state)]
#[kani::stub(aelys_bytecode::GlobalLayout::empty, aelys_bytecode::GlobalLayout::verif_empty)]
#[kani::unwind(7)]
fn c08_o1b_call_sites_reload_cold() {
    let heap = Heap::new();
    let mut f = Function::new(None, 0);
    f.num_registers = 4;
    let mono: bool = kani::any();
    let abc: u32 = kani::any();
    kani::assume(abc <= 0x00FF_FFFF);
    let call = ((if mono { 78u32 } else { 77u32 }) << 24) | abc;
    let (c1, c2): (u32, u32) = (kani::any(), kani::any());
    f.set_bytecode(vec![call, c1, c2, 23u32 << 24]);
    let bytes = serialize(&f, &heap);
    let back = deserialize(&bytes);
    assert!(back.is_ok());
    let (g, gheap) = back.ok().unwrap();
    assert!(g.bytecode.len() == 4);
    assert!(g.bytecode[0] == ((77u32 << 24) | abc));
    assert!(g.bytecode[1] == 0 && (g.bytecode[2] >> 16) == 0); // no resolved pointer survives
    assert!(g.bytecode[3] == (23u32 << 24));
    kani::cover!(mono && c1 != 0, "REQ a patched site");
    std::mem::forget(f); std::mem::forget(g); std::mem::forget(gheap); std::mem::forget(heap); std::mem::forget(bytes);
}

/// smallest shape: one word, one immediate constant, nothing else
#[kani::proof]
#[kani::stub(std::hash::RandomState::new, crate::stub_random_state)]
#[kani::stub(aelys_bytecode::GlobalLayout::empty, aelys_bytecode::GlobalLayout::verif_empty)]
#[kani::unwind(5)]
fn c08_o1_roundtrip_min() {
    let heap = Heap::new();
    let mut f = Function::new(None, kani::any());
    f.num_registers = kani::any();
    let w0: u32 = kani::any();
    kani::assume(cold(w0));
    f.set_bytecode(vec![w0]);
    let k0 = any_imm_const();
    f.constants = vec![k0];
    let bytes = serialize(&f, &heap);
    let back = deserialize(&bytes);
    assert!(back.is_ok());
    let (g, gheap) = back.ok().unwrap();
    same_fn_fields(&f, &g);
    assert!(g.bytecode[0] == w0);
    assert!(g.constants[0].raw_bits() == k0.raw_bits());
    kani::cover!(k0.is_float(), "REQ float constant");
    std::mem::forget(f); std::mem::forget(g); std::mem::forget(gheap); std::mem::forget(heap); std::mem::forget(bytes);
}
