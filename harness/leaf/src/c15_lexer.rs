//! C15 — layout of the source text does not change a program's meaning: relational kernels on the real lexer.
//! The layout rules live in the lexer (pending semicolon, bracket nesting depth, look-ahead for `else`); the parser
//! sees only the token stream. Each harness builds a text from fixed tokens and a *symbolic choice* of separator
//! (or literal spelling) from a class the language declares equivalent, runs the real `Lexer::scan`, and requires
//! the token-kind stream to be the one stream the class stands for.
use aelys_frontend::lexer::{Lexer, TokenKind};

/// token kinds used below, as small codes (ints carry their value)
fn code(k: &TokenKind) -> (u8, i64) {
    match k {
        TokenKind::Int(n) => (1, *n),
        TokenKind::Identifier(_) => (2, 0),
        TokenKind::Else => (3, 0),
        TokenKind::LParen => (4, 0),
        TokenKind::RParen => (5, 0),
        TokenKind::LBrace => (6, 0),
        TokenKind::RBrace => (7, 0),
        TokenKind::Semicolon => (8, 0),
        TokenKind::Comma => (9, 0),
        TokenKind::Eof => (10, 0),
        TokenKind::LBracket => (11, 0),
        TokenKind::RBracket => (12, 0),
        _ => (255, 0),
    }
}

fn expect_stream(text: &str, want: &[(u8, i64)]) {
    let toks = Lexer::new(text).scan();
    match toks {
        Ok(ts) => {
            assert!(ts.len() == want.len());
            let mut i = 0;
            while i < want.len() {
                let c = code(&ts[i].kind);
                assert!(c.0 == want[i].0 && c.1 == want[i].1);
                i += 1;
            }
            std::mem::forget(ts);
        }
        Err(e) => {
            std::mem::forget(e);
            assert!(false, "lexer rejected the text");
        }
    }
}

/// newline-class separators: all of these mean "a line break here"
fn newline_sep(sel: u8) -> &'static str {
    match sel {
        0 => "\n",
        1 => "\n\n",
        2 => "\n  ",
        3 => " //c\n",
        _ => "\n//c\n",
    }
}

macro_rules! lexer_harness {
    ($name:ident, $nsel:expr, $build:expr, $want:expr) => {
        #[kani::proof]
        #[kani::stub(std::fmt::format, crate::stub_format)]
        #[kani::unwind(16)]
        fn $name() {
            let sel: u8 = kani::any();
            kani::assume(sel < $nsel);
            let text: String = ($build)(sel);
            expect_stream(&text, &$want);
            kani::cover!(sel == $nsel - 1, "REQ last variant");
            std::mem::forget(text);
        }
    };
}

// O1: `}` <line break> `else` is one statement whatever the line break looks like (blank line, indentation, comment)
lexer_harness!(c15_o1_brace_else, 5, |s: u8| { let mut t = String::from("}"); t.push_str(newline_sep(s)); t.push_str("else"); t },
               [(7, 0), (3, 0), (10, 0)]);
// O2: a line break between two statements is the same as an explicit semicolon
lexer_harness!(c15_o2_newline_is_semicolon, 6, |s: u8| { let mut t = String::from("x"); t.push_str(if s == 5 { ";" } else { newline_sep(s) }); t.push_str("y"); t },
               [(2, 0), (8, 0), (2, 0), (8, 0), (10, 0)]);
// O3: inside call parentheses a line break is plain white space
lexer_harness!(c15_o3_newline_in_parens, 6, |s: u8| { let mut t = String::from("(x,"); t.push_str(if s == 5 { " " } else { newline_sep(s) }); t.push_str("y)"); t },
               [(4, 0), (2, 0), (9, 0), (2, 0), (5, 0), (8, 0), (10, 0)]);
// O4: digit-group underscores and radix spellings denote the same integer
lexer_harness!(c15_o4_int_spellings, 5, |s: u8| String::from(match s { 0 => "10", 1 => "1_0", 2 => "0xa", 3 => "0b1010", _ => "0o12" }),
               [(1, 10), (8, 0), (10, 0)]);
