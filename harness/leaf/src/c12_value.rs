//! C12 — every value has exactly one type and survives boxing unchanged.
//! Public API of aelys_bytecode::Value, full domains, no bounds, no stubs.
use aelys_bytecode::Value;

const P48: u64 = 1 << 48;

fn kinds(v: &Value) -> u32 {
    v.is_int() as u32
        + v.is_float() as u32
        + v.is_bool() as u32
        + v.is_null() as u32
        + v.is_ptr() as u32
        + v.as_nested_fn_marker().is_some() as u32
}

fn sext48(n: i64) -> i64 {
    (n << 16) >> 16
}

/// O1: every 64-bit pattern is exactly one kind, and the accessors agree with the predicates.
#[kani::proof]
fn c12_o1_partition() {
    let bits: u64 = kani::any();
    let v = Value::from_raw(bits);
    assert!(kinds(&v) == 1);
    assert!(v.raw_bits() == bits);
    assert!(v.as_int().is_some() == v.is_int());
    assert!(v.as_float().is_some() == v.is_float());
    assert!(v.as_bool().is_some() == v.is_bool());
    assert!(v.as_ptr().is_some() == v.is_ptr());
    kani::cover!(v.is_int());
    kani::cover!(v.is_float() && (bits & 0x7FF8_0000_0000_0000) == 0x7FF8_0000_0000_0000);
    kani::cover!(v.as_nested_fn_marker().is_some());
    kani::cover!(true);
}

/// O2: integers.
#[kani::proof]
fn c12_o2_int() {
    let n: i64 = kani::any();
    let v = Value::int(n);
    assert!(v.is_int() && kinds(&v) == 1);
    assert!(v.as_int() == Some(sext48(n)));
    assert!(v.as_int_unchecked() == sext48(n));
    let in_range = n >= Value::INT_MIN && n <= Value::INT_MAX;
    match Value::int_checked(n) {
        Ok(c) => {
            assert!(in_range);
            assert!(c.as_int() == Some(n));
            assert!(c.raw_bits() == v.raw_bits());
        }
        Err(e) => {
            assert!(!in_range);
            assert!(e.value == n);
        }
    }
    if in_range {
        assert!(v.as_int() == Some(n));
    }
    kani::cover!(in_range && n < 0);
    kani::cover!(!in_range);
    kani::cover!(true);
}

/// O3: floats (every bit pattern incl. all NaNs, infinities, -0.0, subnormals).
#[kani::proof]
fn c12_o3_float() {
    let bits: u64 = kani::any();
    let f = f64::from_bits(bits);
    let v = Value::float(f);
    assert!(v.is_float() && kinds(&v) == 1);
    assert!(v.as_nested_fn_marker().is_none());
    let back = v.as_float().unwrap();
    if f.is_nan() {
        assert!(back.is_nan());
        // all NaNs are one NaN
        assert!(v.raw_bits() == Value::float(f64::NAN).raw_bits());
    } else {
        assert!(back.to_bits() == bits);
        assert!(v.as_float_unchecked().to_bits() == bits);
    }
    kani::cover!(f.is_nan() && (bits >> 63) == 1);
    kani::cover!(f.is_infinite());
    kani::cover!(bits == 0x8000_0000_0000_0000);
    kani::cover!(true);
}

/// O4: bool, null, ptr, nested-fn marker.
#[kani::proof]
fn c12_o4_other_kinds() {
    let b: bool = kani::any();
    let vb = Value::bool(b);
    assert!(vb.is_bool() && kinds(&vb) == 1 && vb.as_bool() == Some(b));

    let vn = Value::null();
    assert!(vn.is_null() && kinds(&vn) == 1);
    assert!(Value::default().raw_bits() == vn.raw_bits());

    let p: usize = kani::any();
    kani::assume((p as u64) < P48);
    let vp = Value::ptr(p);
    assert!(vp.is_ptr() && kinds(&vp) == 1 && vp.as_ptr() == Some(p));

    let i: usize = kani::any();
    kani::assume((i as u64) < P48);
    let vm = Value::nested_fn_marker(i);
    assert!(kinds(&vm) == 1 && vm.as_nested_fn_marker() == Some(i));
    assert!(!vm.is_ptr() && !vm.is_float() && !vm.is_int());
    // a marker and a pointer with the same payload are different values
    assert!(Value::ptr(i).raw_bits() != vm.raw_bits());
    assert!(!(Value::ptr(i) == vm));
    kani::cover!(p == (P48 - 1) as usize);
    kani::cover!(true);
}

/// O5: equality agrees with numeric equality across int and float; distinct kinds differ.
#[kani::proof]
fn c12_o5_equality() {
    let n: i64 = kani::any();
    let m: i64 = kani::any();
    kani::assume(n >= Value::INT_MIN && n <= Value::INT_MAX);
    kani::assume(m >= Value::INT_MIN && m <= Value::INT_MAX);
    let f: f64 = kani::any();
    let g: f64 = kani::any();
    kani::assume(!f.is_nan() && !g.is_nan());

    assert!((Value::int(n) == Value::int(m)) == (n == m));
    assert!((Value::float(f) == Value::float(g)) == (f == g));
    assert!((Value::int(n) == Value::float(f)) == ((n as f64) == f));
    assert!((Value::float(f) == Value::int(n)) == ((n as f64) == f));

    // non-numeric kinds: never equal to another kind
    let b: bool = kani::any();
    let p: usize = kani::any();
    kani::assume((p as u64) < P48);
    let others = [Value::bool(b), Value::null(), Value::ptr(p), Value::nested_fn_marker(p)];
    let nums = [Value::int(n), Value::float(f)];
    let mut i = 0;
    while i < 4 {
        let mut j = 0;
        while j < 4 {
            if i != j {
                assert!(!(others[i] == others[j]));
            }
            j += 1;
        }
        assert!(!(others[i] == nums[0]) && !(nums[0] == others[i]));
        assert!(!(others[i] == nums[1]) && !(nums[1] == others[i]));
        i += 1;
    }
    assert!((Value::bool(b) == Value::bool(!b)) == false);
    assert!(Value::ptr(p) == Value::ptr(p));
    kani::cover!((n as f64) == f && n != 0);
    kani::cover!(f == g && f.to_bits() != g.to_bits()); // +0.0 == -0.0
    kani::cover!(true);
}

/// O6: type_name and is_truthy consult the same partition.
#[kani::proof]
fn c12_o6_type_name_truthy() {
    let bits: u64 = kani::any();
    let v = Value::from_raw(bits);
    let name = v.type_name();
    let expect = if v.is_null() {
        "Null"
    } else if v.is_bool() {
        "Bool"
    } else if v.is_int() {
        "Int"
    } else if v.is_float() {
        "Float"
    } else if v.is_ptr() {
        "Object"
    } else {
        "Unknown"
    };
    assert!(name.len() == expect.len() && name.as_bytes()[0] == expect.as_bytes()[0]);
    assert!((name.len() == 7) == v.as_nested_fn_marker().is_some()); // "Unknown" only for markers
    let t = v.is_truthy();
    if v.is_null() {
        assert!(!t);
    } else if let Some(b) = v.as_bool() {
        assert!(t == b);
    } else if let Some(n) = v.as_int() {
        assert!(t == (n != 0));
    } else if let Some(f) = v.as_float() {
        assert!(t == (f != 0.0));
    } else {
        assert!(t);
    }
    kani::cover!(true);
}
