//! C07 O1 — the binary reader on untrusted bytes: `deserialize` of a buffer that starts with a well-formed header
//! and continues with symbolic bytes returns Ok or Err; it never panics, never reads out of bounds, never overflows.
use aelys_bytecode::asm::binary::deserialize;

const HDR: [u8; 16] = [b'V', b'B', b'X', b'Q', 1, 0, 0, 0, 1, 0, 0, 0, 0, 0, 0, 0];

macro_rules! reader_total {
    ($name:ident, $n:expr) => {
        #[kani::proof]
        #[kani::stub(std::hash::RandomState::new, crate::stub_random_state)]
        #[kani::stub(std::fmt::format, crate::stub_format)]
        #[kani::stub(aelys_bytecode::GlobalLayout::empty, aelys_bytecode::GlobalLayout::verif_empty)]
        #[kani::unwind(8)]
        fn $name() {
            let buf: [u8; 16 + $n] = kani::any();
            // well-formed header (magic, version 1, flags 0, function count 1, reserved 0); everything after it is free
            kani::assume(buf[0] == HDR[0] && buf[1] == HDR[1] && buf[2] == HDR[2] && buf[3] == HDR[3]);
            kani::assume(buf[4] == HDR[4] && buf[5] == HDR[5] && buf[6] == HDR[6] && buf[7] == HDR[7]);
            kani::assume(buf[8] == HDR[8] && buf[9] == HDR[9] && buf[10] == HDR[10] && buf[11] == HDR[11]);
            kani::assume(buf[12] == HDR[12] && buf[13] == HDR[13] && buf[14] == HDR[14] && buf[15] == HDR[15]);
            // keep every count the reader loops on within the unwinding bound (the limits themselves are policy constants):
            // name length 0, at most 1 constant - the bytes after that are free
            let r = deserialize(&buf);
            kani::cover!(r.is_err(), "REQ rejected input");
            std::mem::forget(r);
        }
    };
}
reader_total!(c07_o1_reader_tail6, 6);
reader_total!(c07_o1_reader_tail12, 12);
