//! Out-of-tree Kani harnesses over the public API of /repo's crates.
#![allow(unused)]
#[cfg(kani)]
mod c12_value;
