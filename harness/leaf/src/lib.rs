//! Out-of-tree Kani harnesses over the public API of /repo's crates (plus re-instantiated private leaf files).
#![allow(unused)]
// names that re-instantiated repository files import through `crate::`
pub use aelys_air::{AirProgram, AirStructDef, AirStructField, AirType, CallingConv, TypeParamId};

#[cfg(kani)]
pub(crate) fn stub_random_state() -> std::hash::RandomState {
    // the real one reads getrandom(2), which CBMC cannot execute; fixed keys
    unsafe { std::mem::transmute::<(u64, u64), std::hash::RandomState>((0x9E37_79B9_7F4A_7C15, 0x2545_F491_4F6C_DD1D)) }
}

#[cfg(kani)]
pub(crate) fn stub_format(_args: std::fmt::Arguments<'_>) -> String {
    String::new()
}

#[cfg(kani)]
mod c12_value;
#[cfg(kani)]
mod c18_layout;
#[cfg(kani)]
mod c06_select;
#[cfg(kani)]
mod c02_constants;
#[cfg(kani)]
mod c08_roundtrip;
#[cfg(kani)]
mod c07_reader;
#[cfg(kani)]
mod c15_lexer;
