//! C02 O2 — constant pool identity (Function::add_constant, public API): loading the constant index returned for a
//! value yields a value of the same kind and bits (one NaN), whatever was added before.
use aelys_bytecode::{Function, Value};

fn same_constant(a: Value, b: Value) -> bool {
    // what LoadK must give back: identical bits (all NaNs are already one NaN after Value::float)
    a.raw_bits() == b.raw_bits()
}

#[kani::proof]
#[kani::stub(aelys_bytecode::GlobalLayout::empty, aelys_bytecode::GlobalLayout::verif_empty)]
#[kani::unwind(4)]
fn c02_o2_add_constant_identity() {
    let mut f = Function::new(None, 0);
    let v1 = Value::from_raw(kani::any());
    let v2 = Value::from_raw(kani::any());
    // constants the compiler can produce: ints, floats (canonical NaN), bools, null, pointers, markers
    let i1 = f.add_constant(v1);
    let i2 = f.add_constant(v2);
    assert!((i1 as usize) < f.constants.len() && (i2 as usize) < f.constants.len());
    assert!(same_constant(f.constants[i1 as usize], v1));
    assert!(same_constant(f.constants[i2 as usize], v2));
    kani::cover!(i1 == i2 && v1.raw_bits() == v2.raw_bits(), "REQ deduplicated");
    kani::cover!(i1 != i2, "REQ distinct");
    kani::cover!(v1.is_int() && v2.is_float(), "REQ int then float");
    std::mem::forget(f);
}
