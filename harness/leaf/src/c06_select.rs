//! C06 O3 — typed-opcode selection (backend/src/opcode_select.rs, public API).
//! An unguarded typed opcode (…II / …FF) is selected only when both operand types are certain and of the opcode's
//! class; int/float mixes get the guarded float form; anything else gets the generic, dynamically checked opcode.
use aelys_backend::opcode_select::{compute_result_type, select_opcode};
use aelys_sema::ResolvedType;
use aelys_syntax::ast::BinaryOp;

fn any_op() -> BinaryOp {
    let s: u8 = kani::any();
    kani::assume(s < 16);
    match s {
        0 => BinaryOp::Add, 1 => BinaryOp::Sub, 2 => BinaryOp::Mul, 3 => BinaryOp::Div, 4 => BinaryOp::Mod,
        5 => BinaryOp::Eq, 6 => BinaryOp::Ne, 7 => BinaryOp::Lt, 8 => BinaryOp::Le, 9 => BinaryOp::Gt, 10 => BinaryOp::Ge,
        11 => BinaryOp::Shl, 12 => BinaryOp::Shr, 13 => BinaryOp::BitAnd, 14 => BinaryOp::BitOr, _ => BinaryOp::BitXor,
    }
}

fn leaf(s: u8) -> ResolvedType {
    match s {
        0 => ResolvedType::I8, 1 => ResolvedType::I16, 2 => ResolvedType::I32, 3 => ResolvedType::I64,
        4 => ResolvedType::U8, 5 => ResolvedType::U16, 6 => ResolvedType::U32, 7 => ResolvedType::U64,
        8 => ResolvedType::F32, 9 => ResolvedType::F64, 10 => ResolvedType::Bool, 11 => ResolvedType::String,
        12 => ResolvedType::Null, 13 => ResolvedType::Range, _ => ResolvedType::Dynamic,
    }
}

/// (type, is_int, is_float, uncertain)
fn any_type() -> (ResolvedType, bool, bool, bool) {
    let s: u8 = kani::any();
    kani::assume(s < 15);
    let t = leaf(s);
    let unc: bool = kani::any();
    kani::assume(!unc || s < 14); // Uncertain(Dynamic) is not a meaningful type
    let (i, f) = (s <= 7, s == 8 || s == 9);
    if unc { (ResolvedType::Uncertain(Box::new(t)), i, f, true) } else { (t, i, f, false) }
}

fn is_typed_int(o: u8) -> bool { (49..=53).contains(&o) || (59..=64).contains(&o) || (111..=115).contains(&o) }
fn is_typed_float(o: u8) -> bool { (54..=58).contains(&o) || (65..=70).contains(&o) }
fn is_guarded_int(o: u8) -> bool { (82..=86).contains(&o) || (92..=97).contains(&o) }
fn is_guarded_float(o: u8) -> bool { (87..=91).contains(&o) || (98..=103).contains(&o) }
fn is_generic(o: u8) -> bool { (5..=9).contains(&o) || (11..=16).contains(&o) || (105..=109).contains(&o) }
fn is_bitop(op: BinaryOp) -> bool { matches!(op, BinaryOp::Shl | BinaryOp::Shr | BinaryOp::BitAnd | BinaryOp::BitOr | BinaryOp::BitXor) }

/// O3a: the domain source programs reach: both operand types certain leaves
#[kani::proof]
#[kani::unwind(2)]
fn c06_o3a_selection_certain() {
    let op = any_op();
    let ls: u8 = kani::any();
    let rs: u8 = kani::any();
    kani::assume(ls < 15 && rs < 15);
    let (l, r) = (leaf(ls), leaf(rs));
    let (li, lf, ri, rf) = (ls <= 7, ls == 8 || ls == 9, rs <= 7, rs == 8 || rs == 9);
    let o = select_opcode(op, &l, &r) as u8;
    assert!(is_typed_int(o) || is_typed_float(o) || is_guarded_int(o) || is_guarded_float(o) || is_generic(o));
    if is_typed_int(o) { assert!(li && ri); }
    if is_typed_float(o) { assert!(lf && rf); }
    if (li && rf) || (lf && ri) {
        // a statically int operand meets a statically float one: never an unguarded typed opcode
        assert!(!is_typed_int(o) && !is_typed_float(o));
        if !is_bitop(op) { assert!(is_guarded_float(o)); }
    }
    if !(li || lf) || !(ri || rf) { assert!(is_generic(o)); }
    kani::cover!(is_typed_int(o), "REQ typed int selected");
    kani::cover!(is_typed_float(o), "REQ typed float selected");
    kani::cover!(is_guarded_float(o), "REQ guarded float selected");
    kani::cover!(is_generic(o), "REQ generic selected");
    std::mem::forget(l);
    std::mem::forget(r);
}

/// O3b: an uncertain operand (not produced from source today) never gets an unguarded arithmetic/comparison opcode
#[kani::proof]
#[kani::unwind(3)]
fn c06_o3b_selection_uncertain() {
    let op = any_op();
    kani::assume(!is_bitop(op)); // bit operations have no guarded form in the instruction set
    let ls: u8 = kani::any();
    let rs: u8 = kani::any();
    kani::assume(ls < 14 && rs < 15);
    let l = ResolvedType::Uncertain(Box::new(leaf(ls)));
    let r = leaf(rs);
    let swap: bool = kani::any();
    let o = if swap { select_opcode(op, &r, &l) } else { select_opcode(op, &l, &r) } as u8;
    assert!(!is_typed_int(o) && !is_typed_float(o));
    kani::cover!(is_guarded_int(o), "REQ guarded int selected");
    kani::cover!(is_generic(o), "REQ generic selected");
    std::mem::forget(l);
    std::mem::forget(r);
}
