// ---------------------------------------------------------------------------------------------
// C04 O1 / C07 O2: the verifier is total - for every small function object it returns Ok or Err,
// never panics and never indexes out of bounds - and OpCode::from_u8 only produces declared opcodes.
// (A whole-function harness with a symbolic opcode per word took ~1000 s / ran out of memory; the
// obligation is therefore split per opcode of the first word, like the step obligations.)
// ---------------------------------------------------------------------------------------------

/// verifier obligation, one per concrete container shape: a function whose first word is fully symbolic, followed by
/// 0, 1 or 2 Return0 words; 0..=2 symbolic constants; optional nested function and upvalue descriptor.
///  - totality: verify_function returns (no panic, no out-of-bounds index) - CBMC's default checks;
///  - soundness of the guarantees the VM documents it relies on: if the function is accepted then
///      CallGlobal/CallGlobalMono/CallGlobalNative have their two cache words inside the bytecode,
///      LoadK / MakeClosure / GetGlobal / SetGlobal / IncGlobalI constant operands are inside the constant table,
///      MakeClosure's constant is a marker of an existing nested function whose descriptor count equals operand c,
///      upvalue operands are inside the descriptor table, and every jump target is inside 0..=len.
pub(crate) fn c04_verify_shape(tail: usize, nconst: usize, nested: bool, nested_upvals: usize, upval: bool) {
    // every container shape is concrete per harness (a symbolic shape makes CBMC unroll the verifier's scan loop to the
    // global bound with a symbolic opcode in every iteration: no verdict in 1500 s); operand fields and values are symbolic
    let mut heap = Heap::new();
    heap.alloc_string("a");
    // the first word is fully symbolic, opcode byte included (fixing the opcode per harness does not help: CBMC does not
    // constant-propagate it through the bytecode buffer, so a per-opcode split costs the same ~1000 s per harness)
    let w0: u32 = kani::any();
    let op = (w0 >> 24) as u8;
    // trailing words are Return0 instructions; for the call-global family they are the skipped cache words
    const R0: u32 = 23u32 << 24;
    let w = match tail {
        0 => vec![w0],
        1 => vec![w0, R0],
        _ => vec![w0, R0, R0],
    };
    let k = match nconst {
        0 => vec![],
        1 => vec![Value::from_raw(kani::any())],
        _ => vec![Value::from_raw(kani::any()), Value::from_raw(kani::any())],
    };
    let mut f = mk_function(w, k, kani::any(), kani::any());
    if nested {
        let mut n = mk_function(vec![R0], vec![], kani::any(), kani::any());
        if nested_upvals == 1 {
            n.upvalue_descriptors = vec![UpvalueDescriptor { is_local: kani::any(), index: kani::any() }];
        }
        f.nested_functions = vec![n];
    }
    if upval {
        f.upvalue_descriptors = vec![UpvalueDescriptor { is_local: kani::any(), index: kani::any() }];
    }
    let len = 1 + tail;
    let nregs = f.num_registers as usize;
    let r = crate::vm::verifier::verify_function(&f, &heap, 0);
    if r.is_ok() {
        let a = ((w0 >> 16) & 0xFF) as usize;
        let b = ((w0 >> 8) & 0xFF) as usize;
        let c = (w0 & 0xFF) as usize;
        let imm = (w0 & 0xFFFF) as u16 as i16;
        let nk = nconst;
        let nup = if upval { 1 } else { 0 };
        match op {
            77 | 78 | 104 => assert!(len >= 3 && a < nregs),
            2 => assert!((imm as u16 as usize) < nk && a < nregs),
            24 | 25 | 39 => assert!(b < nk && a < nregs),
            35 => {
                assert!(b < nk && a < nregs);
                let m = f.constants[b].as_nested_fn_marker();
                assert!(m == Some(0) && nested && c == nested_upvals);
            }
            36 => assert!(b < nup && a < nregs),
            37 => assert!(a < nup && b < nregs),
            80 | 81 => assert!(b < nup && a < nregs),
            18 => assert!(1 + imm as isize >= 0 && (1 + imm as isize) as usize <= len),
            19 | 20 | 40 | 41 | 48 | 177 | 178 | 179 => assert!(a < nregs && 1 + imm as isize >= 0 && (1 + imm as isize) as usize <= len),
            0 => assert!(a < nregs && b < nregs),
            21 | 79 => assert!(a < nregs && b < nregs && (c == 0 || b + c < nregs)),
            _ => {}
        }
    }
    kani::cover!(true, "REQ verifier returned");
    kani::cover!(r.is_ok(), "accepted");
    kani::cover!(r.is_err(), "rejected");
    std::mem::forget(r);
    std::mem::forget(f);
    std::mem::forget(heap);
}

macro_rules! c04_verify_shape {
    ($name:ident, $tail:expr, $nconst:expr, $nested:expr, $nup:expr, $upval:expr) => {
        vm_harness! {
            fn $name() {
                c04_verify_shape($tail, $nconst, $nested, $nup, $upval);
            }
        }
    };
}
c04_verify_shape!(c04_v1_shape_w1_k0, 0, 0, false, 0, false);
c04_verify_shape!(c04_v1_shape_w2_k1_nested, 1, 1, true, 0, false);
c04_verify_shape!(c04_v1_shape_w3_k2_nested_upvals, 2, 2, true, 1, true);
c04_verify_shape!(c04_v1_shape_w1_k1_upval, 0, 1, false, 0, true);
c04_verify_shape!(c04_v1_shape_w2_k1, 1, 1, false, 0, false);
c04_verify_shape!(c04_v1_shape_w3_k2, 2, 2, false, 0, true);

/// OpCode::from_u8 returns Some exactly for the bytes that are declared discriminants of the enum
/// (VERIF_VALID_OPCODES is generated from opcode.rs by lib/opgen.py), and the value round-trips.
#[kani::proof]
fn c04_v2_from_u8_declared_only() {
    let b: u8 = kani::any();
    let r = crate::vm::OpCode::from_u8(b);
    let declared = VERIF_VALID_OPCODES[b as usize];
    assert!(r.is_some() == declared);
    if declared {
        if let Some(op) = r {
            assert!(op as u8 == b);
        }
    }
    kani::cover!(declared, "REQ a declared opcode");
    kani::cover!(!declared, "REQ an undeclared byte");
}
