// ---------------------------------------------------------------------------------------------
// C09 O4 (second part): the remaining byte-buffer natives - 8-byte integers, f32/f64, swap, reverse, equals.
// Same byte-array model as c09_bytes.rs, const-generic in the two buffer sizes so that the 8-byte accessors
// get a buffer they can legally address (9 and 3 bytes: offsets 0 and 1 are legal for width 8, 2.. straddle).
// ---------------------------------------------------------------------------------------------

// (the wrappers for these natives live in c09_bytes.rs::bytes_real, one re-instantiation of bytes.rs for both files)

struct BufsG<const A: usize, const B: usize> { m0: [u8; A], m1: [u8; B] }

impl<const A: usize, const B: usize> BufsG<A, B> {
    fn vm() -> (VM, Self) {
        let mut vm = verif_vm();
        let m0: [u8; A] = kani::any();
        let m1: [u8; B] = kani::any();
        vm.resources = vec![
            Some(Resource::ByteBuffer(ByteBuffer { data: m0.to_vec() })),
            Some(Resource::ByteBuffer(ByteBuffer { data: m1.to_vec() })),
            None, // a handle that was issued and freed
        ];
        (vm, BufsG { m0, m1 })
    }
    fn blen(h: usize) -> usize { if h == 0 { A } else if h == 1 { B } else { 0 } }
    fn legal(hv: Value, ov: Value, w: usize) -> Option<(usize, usize)> {
        let (h, o) = (idx(hv)?, idx(ov)?);
        if h <= 1 && o <= Self::blen(h) && w <= Self::blen(h) - o { Some((h, o)) } else { None }
    }
    fn get(&self, h: usize, i: usize) -> u8 { if h == 0 { self.m0[i] } else { self.m1[i] } }
    fn set(&mut self, h: usize, i: usize, v: u8) { if h == 0 { self.m0[i] = v } else { self.m1[i] = v } }
    fn agrees(&self, vm: &VM) -> bool {
        let (a, b) = (buf(vm, 0), buf(vm, 1));
        if a.len() != A || b.len() != B || vm.get_resource(2).is_some() || vm.resources.len() != 3 { return false; }
        let mut ok = true;
        let mut i = 0;
        while i < A { ok &= a[i] == self.m0[i]; i += 1; }
        let mut j = 0;
        while j < B { ok &= b[j] == self.m1[j]; j += 1; }
        ok
    }
}

/// write obligations: `$val` maps the value argument to Some(encoded bytes) when the native must accept it
macro_rules! bytes_w2 {
    ($name:ident, $a:expr, $b:expr, $w:expr, $write:ident, $val:expr) => {
        vm_harness! {
            fn $name() {
                type M = BufsG<$a, $b>;
                let (mut vm, mut m) = M::vm();
                let (hv, ov, vv) = (Value::from_raw(kani::any()), Value::from_raw(kani::any()), Value::from_raw(kani::any()));
                let wr = bytes_real::$write(&mut vm, &[hv, ov, vv]);
                let enc: Option<[u8; $w]> = ($val)(vv);
                match (M::legal(hv, ov, $w), enc) {
                    (Some((h, o)), Some(e)) => {
                        assert!(wr.is_ok());
                        let mut k = 0;
                        while k < $w { m.set(h, o + k, e[k]); k += 1; }
                    }
                    _ => assert!(wr.is_err()),
                }
                assert!(m.agrees(&vm));
                kani::cover!(M::legal(hv, ov, $w).is_some() && enc.is_some() && idx(ov) == Some($a - $w), "REQ legal write ending at the last byte");
                kani::cover!(idx(hv) == Some(0) && idx(ov) == Some($a - $w + 1) && enc.is_some(), "REQ straddling write refused");
                kani::cover!(idx(hv) == Some(2), "REQ freed handle");
                std::mem::forget(vm);
            }
        }
    };
}
/// read obligations: `$dec` maps the addressed bytes to the exact Value the native must return
macro_rules! bytes_r2 {
    ($name:ident, $a:expr, $b:expr, $w:expr, $read:ident, $dec:expr) => {
        vm_harness! {
            fn $name() {
                type M = BufsG<$a, $b>;
                let (mut vm, m) = M::vm();
                let (h2, o2) = (Value::from_raw(kani::any()), Value::from_raw(kani::any()));
                let rd = bytes_real::$read(&mut vm, &[h2, o2]);
                match M::legal(h2, o2, $w) {
                    Some((h, o)) => {
                        let mut e = [0u8; $w];
                        let mut k = 0;
                        while k < $w { e[k] = m.get(h, o + k); k += 1; }
                        let want: Value = ($dec)(e);
                        let got = rd.ok();
                        assert!(got.map(|v| v.raw_bits()) == Some(want.raw_bits()));
                        // whatever the bytes were, what comes back is a number and nothing else (no forged reference out of raw memory)
                        assert!(got.map(|v| (v.is_int() ^ v.is_float()) && !v.is_ptr() && !v.is_bool() && !v.is_null()) == Some(true));
                    }
                    None => assert!(rd.is_err()),
                }
                assert!(m.agrees(&vm));
                kani::cover!(M::legal(h2, o2, $w).is_some() && idx(o2) == Some($a - $w), "REQ legal read ending at the last byte");
                kani::cover!(idx(h2) == Some(0) && idx(o2) == Some($a - $w + 1), "REQ straddling read refused");
                kani::cover!(idx(h2) == Some(2), "REQ freed handle");
                std::mem::forget(vm);
            }
        }
    };
}

fn int_arg(v: Value) -> Option<i64> { v.as_int() }
/// write_f32/f64 accept floats and ints (converted), nothing else
fn f32_arg(v: Value) -> Option<f32> { if let Some(f) = v.as_float() { Some(f as f32) } else { v.as_int().map(|i| i as f32) } }
fn f64_arg(v: Value) -> Option<f64> { if let Some(f) = v.as_float() { Some(f) } else { v.as_int().map(|i| i as f64) } }

// 8-byte integers: every Value int is in range (48-bit payload), the bytes are the two's-complement image
bytes_w2!(c09_o4_w_u64_le, 9, 3, 8, v_write_u64, |v: Value| int_arg(v).map(|x| (x as u64).to_le_bytes()));
bytes_w2!(c09_o4_w_i64_le, 9, 3, 8, v_write_i64, |v: Value| int_arg(v).map(|x| x.to_le_bytes()));
bytes_w2!(c09_o4_w_u64_be, 9, 3, 8, v_write_u64_be, |v: Value| int_arg(v).map(|x| (x as u64).to_be_bytes()));
bytes_w2!(c09_o4_w_i64_be, 9, 3, 8, v_write_i64_be, |v: Value| int_arg(v).map(|x| x.to_be_bytes()));
// reads return the int Value of the 64-bit pattern (Value::int keeps the low 48 bits: the language's int width)
bytes_r2!(c09_o4_r_u64_le, 9, 3, 8, v_read_u64, |e: [u8; 8]| Value::int(u64::from_le_bytes(e) as i64));
bytes_r2!(c09_o4_r_i64_le, 9, 3, 8, v_read_i64, |e: [u8; 8]| Value::int(i64::from_le_bytes(e)));
bytes_r2!(c09_o4_r_u64_be, 9, 3, 8, v_read_u64_be, |e: [u8; 8]| Value::int(u64::from_be_bytes(e) as i64));
bytes_r2!(c09_o4_r_i64_be, 9, 3, 8, v_read_i64_be, |e: [u8; 8]| Value::int(i64::from_be_bytes(e)));
// floats
bytes_w2!(c09_o4_w_f32_le, 5, 3, 4, v_write_f32, |v: Value| f32_arg(v).map(|x| x.to_le_bytes()));
bytes_w2!(c09_o4_w_f32_be, 5, 3, 4, v_write_f32_be, |v: Value| f32_arg(v).map(|x| x.to_be_bytes()));
bytes_w2!(c09_o4_w_f64_le, 9, 3, 8, v_write_f64, |v: Value| f64_arg(v).map(|x| x.to_le_bytes()));
bytes_w2!(c09_o4_w_f64_be, 9, 3, 8, v_write_f64_be, |v: Value| f64_arg(v).map(|x| x.to_be_bytes()));
bytes_r2!(c09_o4_r_f32_le, 5, 3, 4, v_read_f32, |e: [u8; 4]| Value::float(f32::from_le_bytes(e) as f64));
bytes_r2!(c09_o4_r_f32_be, 5, 3, 4, v_read_f32_be, |e: [u8; 4]| Value::float(f32::from_be_bytes(e) as f64));
bytes_r2!(c09_o4_r_f64_le, 9, 3, 8, v_read_f64, |e: [u8; 8]| Value::float(f64::from_le_bytes(e)));
bytes_r2!(c09_o4_r_f64_be, 9, 3, 8, v_read_f64_be, |e: [u8; 8]| Value::float(f64::from_be_bytes(e)));

vm_harness! {
    fn c09_o4_swap() {
        type M = BufsG<4, 3>;
        let (mut vm, mut m) = M::vm();
        let (hv, iv, jv) = (Value::from_raw(kani::any()), Value::from_raw(kani::any()), Value::from_raw(kani::any()));
        let r = bytes_real::v_swap(&mut vm, &[hv, iv, jv]);
        match (idx(hv), idx(iv), idx(jv)) {
            (Some(h), Some(i), Some(j)) if h <= 1 && i < M::blen(h) && j < M::blen(h) => {
                assert!(r.is_ok());
                let (x, y) = (m.get(h, i), m.get(h, j));
                m.set(h, i, y);
                m.set(h, j, x);
            }
            _ => assert!(r.is_err()),
        }
        assert!(m.agrees(&vm));
        kani::cover!(r.is_ok() && idx(hv) == Some(1) && idx(iv) == Some(0) && idx(jv) == Some(2), "REQ swap first and last byte");
        kani::cover!(r.is_err() && idx(hv) == Some(1) && idx(iv) == Some(0) && idx(jv) == Some(3), "REQ second index one past the end refused");
        kani::cover!(r.is_err() && idx(hv) == Some(1) && idx(iv) == Some(3) && idx(jv) == Some(0), "REQ first index one past the end refused");
        kani::cover!(idx(hv) == Some(2), "REQ freed handle");
        std::mem::forget(vm);
    }
}

vm_harness! {
    fn c09_o4_reverse() {
        type M = BufsG<4, 3>;
        let (mut vm, mut m) = M::vm();
        let (hv, ov, lv) = (Value::from_raw(kani::any()), Value::from_raw(kani::any()), Value::from_raw(kani::any()));
        let r = bytes_real::v_reverse(&mut vm, &[hv, ov, lv]);
        match (idx(hv), idx(ov), idx(lv)) {
            (Some(h), Some(o), Some(n)) if n == 0 || (h <= 1 && o <= M::blen(h) && n <= M::blen(h) - o) => {
                // (a zero-length reverse is a no-op whatever the handle)
                assert!(r.is_ok());
                let mut tmp = [0u8; 4];
                let mut k = 0;
                while k < n { tmp[k] = m.get(h, o + k); k += 1; }
                let mut k = 0;
                while k < n { m.set(h, o + k, tmp[n - 1 - k]); k += 1; }
            }
            _ => assert!(r.is_err()),
        }
        assert!(m.agrees(&vm));
        kani::cover!(r.is_ok() && idx(hv) == Some(0) && idx(ov) == Some(1) && idx(lv) == Some(3), "REQ reverse the last three bytes");
        kani::cover!(r.is_err() && idx(hv) == Some(0) && idx(ov) == Some(2) && idx(lv) == Some(3), "REQ straddling reverse refused");
        kani::cover!(idx(hv) == Some(2), "REQ freed handle");
        std::mem::forget(vm);
    }
}

vm_harness! {
    fn c09_o4_equals() {
        // two buffers of the same length so that both answers are reachable; equals(h, h) is true
        type M = BufsG<3, 3>;
        let (mut vm, m) = M::vm();
        let (av, bv) = (Value::from_raw(kani::any()), Value::from_raw(kani::any()));
        let r = bytes_real::v_equals(&mut vm, &[av, bv]);
        match (idx(av), idx(bv)) {
            (Some(a), Some(b)) if a <= 1 && b <= 1 => {
                let mut same = true;
                let mut k = 0;
                while k < 3 { same &= m.get(a, k) == m.get(b, k); k += 1; }
                assert!(r.ok().and_then(|v| v.as_bool()) == Some(same));
            }
            _ => assert!(r.is_err()),
        }
        assert!(m.agrees(&vm));
        kani::cover!(idx(av) == Some(0) && idx(bv) == Some(1) && m.m0[2] != m.m1[2], "REQ buffers differing in the last byte");
        kani::cover!(idx(av) == Some(1) && idx(bv) == Some(2), "REQ freed second handle");
        std::mem::forget(vm);
    }
}

vm_harness! {
    fn c09_o4_clone() {
        // clone never lands on a live handle: it takes the freed slot when there is one, a fresh handle otherwise;
        // the copy has the source's bytes and both originals are untouched; a dead source is an error and nothing changes
        type M = BufsG<4, 3>;
        let (mut vm, m) = M::vm();
        let has_free: bool = kani::any();
        if !has_free { vm.resources.pop(); }
        let hv = Value::from_raw(kani::any());
        let r = bytes_real::v_clone(&mut vm, &[hv]);
        // the two originals, byte for byte
        let (a, b) = (buf(&vm, 0), buf(&vm, 1));
        assert!(a.len() == 4 && b.len() == 3);
        let mut i = 0;
        while i < 4 { assert!(a[i] == m.m0[i]); i += 1; }
        let mut j = 0;
        while j < 3 { assert!(b[j] == m.m1[j]); j += 1; }
        match idx(hv) {
            Some(h) if h <= 1 => {
                assert!(r.ok().and_then(|v| v.as_int()) == Some(2));
                assert!(vm.resources.len() == 3);
                let c = buf(&vm, 2);
                assert!(c.len() == M::blen(h));
                let mut k = 0;
                while k < M::blen(h) { assert!(c[k] == m.get(h, k)); k += 1; }
            }
            _ => {
                assert!(r.is_err());
                assert!(vm.resources.len() == if has_free { 3 } else { 2 } && vm.get_resource(2).is_none());
            }
        }
        kani::cover!(idx(hv) == Some(1) && has_free, "REQ clone into the freed slot");
        kani::cover!(idx(hv) == Some(0) && !has_free, "REQ clone into a fresh handle");
        kani::cover!(idx(hv) == Some(2) && has_free, "REQ freed source refused");
        std::mem::forget(vm);
    }
}

vm_harness! {
    fn c09_o4_resize() {
        // resize keeps the common prefix, zero-fills growth, leaves the other buffer alone; a non-positive, non-int or oversized
        // size and a dead handle are errors that change nothing. Bound: accepted new sizes 1..=6 (larger accepted sizes are assumed away)
        type M = BufsG<4, 3>;
        let (mut vm, m) = M::vm();
        let (hv, nv) = (Value::from_raw(kani::any()), Value::from_raw(kani::any()));
        let n_ok = match nv.as_int() { Some(n) => n >= 1 && n <= 6, None => false };
        let n_refused = match nv.as_int() { Some(n) => n <= 0 || n > 256 * 1024 * 1024, None => true };
        kani::assume(n_ok || n_refused);
        let r = bytes_real::v_resize(&mut vm, &[hv, nv]);
        match idx(hv) {
            Some(h) if h <= 1 && n_ok => {
                assert!(r.is_ok());
                let n = nv.as_int().unwrap() as usize;
                let (t, o) = (buf(&vm, h), buf(&vm, 1 - h));
                assert!(t.len() == n && o.len() == M::blen(1 - h) && vm.resources.len() == 3 && vm.get_resource(2).is_none());
                let mut k = 0;
                while k < n { assert!(t[k] == if k < M::blen(h) { m.get(h, k) } else { 0 }); k += 1; }
                let mut k = 0;
                while k < M::blen(1 - h) { assert!(o[k] == m.get(1 - h, k)); k += 1; }
            }
            _ => {
                assert!(r.is_err());
                assert!(m.agrees(&vm));
            }
        }
        kani::cover!(r.is_ok() && idx(hv) == Some(1) && nv.as_int() == Some(6), "REQ grow 3 -> 6");
        kani::cover!(r.is_ok() && idx(hv) == Some(0) && nv.as_int() == Some(1), "REQ shrink 4 -> 1");
        kani::cover!(idx(hv) == Some(2) && n_ok, "REQ freed handle refused");
        kani::cover!(idx(hv) == Some(0) && nv.as_int() == Some(0), "REQ zero size refused");
        std::mem::forget(vm);
    }
}
