// ---------------------------------------------------------------------------------------------
// C05: a call always runs the function its callee currently denotes.
// Single call steps from arbitrary cache states (strong form): the two words after the call instruction are
// arbitrary, and every call-site cache entry is either default or the entry the VM would have written for *some*
// live function - not necessarily the one this site resolved (slot ids are not unique across compilation units:
// REPL inputs restart at 0 and the .avbc writer zeroes them).
//   O1   cache-word packing round trip
//   O2a  CallGlobal (77)      O2b  CallGlobalMono (78)      O2c  CallGlobalNative (104)
//   O2e  set_global_by_index leaves no cache entry behind
// ---------------------------------------------------------------------------------------------

#[kani::proof]
fn c05_o1_cache_words_roundtrip() {
    let p: usize = kani::any();
    kani::assume(p < (1usize << 48));
    let slot: u16 = kani::any();
    let (w1, w2) = encode_cache_words(p, slot);
    let (q, s) = decode_cache_words(w1, w2);
    assert!(q == p && s == slot);
    kani::cover!(p > 0xFFFF_FFFF, "REQ pointer above 32 bits");
}

pub(crate) struct C05Pre {
    pub g1: GcRef,
    pub g2: GcRef,
    pub nat: GcRef,
    pub gval: Value,
    pub nargs: u8,
    pub dest: u8,
}

fn entry_for(vm: &VM, f: GcRef) -> crate::vm::CallSiteCacheEntry {
    // exactly what call_global.inc / call_global_mono.inc write for a plain function callee
    match &vm.heap.get(f).unwrap().kind {
        ObjectKind::Function(af) => crate::vm::CallSiteCacheEntry {
            func_ptr: f.index(),
            bytecode_ptr: af.function.bytecode.as_ptr(),
            constants_ptr: af.function.constants.as_ptr(),
            bytecode_len: af.function.bytecode.len() as u32,
            constants_len: af.function.constants.len() as u16,
            arity: af.function.arity,
            num_registers: af.function.num_registers,
            callee_gmap: 0,
            is_closure: false,
        },
        _ => unreachable!(),
    }
}

fn any_entry(vm: &VM, g1: GcRef, g2: GcRef) -> crate::vm::CallSiteCacheEntry {
    let sel: u8 = kani::any();
    kani::assume(sel <= 2);
    match sel {
        0 => crate::vm::CallSiteCacheEntry::default(),
        1 => entry_for(vm, g1),
        _ => entry_for(vm, g2),
    }
}

/// caller F = [CALLOP dest, idx=0, nargs][w1][w2][Return0]; callees G1, G2 (distinct buffers), native "n";
/// global 0 bound to one of them, an int or null; arbitrary cache words; arbitrary (well-formed) cache entries.
pub(crate) fn c05_state(op: u8) -> (VM, C05Pre) {
    let mut vm = verif_vm();
    let dest: u8 = kani::any();
    let nargs: u8 = kani::any();
    kani::assume(dest <= 2 && nargs <= 1);
    let w1: u32 = kani::any();
    let w2: u32 = kani::any();
    kani::assume((w2 & 0xFFFF) <= 1); // call-site slot 0 or 1 (the cache has two entries)
    let call = ((op as u32) << 24) | ((dest as u32) << 16) | (0 << 8) | nargs as u32;
    let f = mk_function(vec![call, w1, w2, 23u32 << 24], vec![], 0, 3);
    let fr = install_function(&mut vm, f);
    let a1: u8 = kani::any();
    let a2: u8 = kani::any();
    kani::assume(a1 <= 1 && a2 <= 1);
    let g1 = install_function(&mut vm, mk_function(vec![23u32 << 24], vec![Value::int(1)], a1, 2));
    let g2 = install_function(&mut vm, mk_function(vec![23u32 << 24, 23u32 << 24], vec![Value::int(2)], a2, 2));
    let na: u8 = kani::any();
    kani::assume(na <= 1);
    let nat = vm.heap.alloc_native("n", na);
    let sel: u8 = kani::any();
    kani::assume(sel <= 4);
    let gval = match sel {
        0 => Value::ptr(g1.index()),
        1 => Value::ptr(g2.index()),
        2 => Value::ptr(nat.index()),
        3 => Value::int(5),
        _ => Value::null(),
    };
    vm.globals_by_index = vec![gval];
    let e0 = any_entry(&vm, g1, g2);
    let e1 = any_entry(&vm, g1, g2);
    vm.call_site_cache = vec![e0, e1];
    push_function_frame(&mut vm, fr, 0, 0);
    let n = vm.frames.len() - 1;
    vm.frames[n].ip = 0;
    (vm, C05Pre { g1, g2, nat, gval, nargs, dest })
}

/// the frame just pushed (if any) runs the code of the function global 0 denotes now
fn runs_current_binding(vm: &VM, pre: &C05Pre, out: &StepOut) {
    if vm.frames.len() == 2 {
        let top = &vm.frames[1];
        let want = pre.gval.as_ptr();
        // the callee is what the global denotes now ...
        assert!(Some(top.function.index()) == want);
        // ... and the code that will run is that object's own code
        match &vm.heap.get(top.function).unwrap().kind {
            ObjectKind::Function(af) => {
                assert!(top.bytecode_ptr == af.function.bytecode.as_ptr() && top.bytecode_len == af.function.bytecode.len());
                assert!(top.constants_ptr == af.function.constants.as_ptr() && top.constants_len == af.function.constants.len());
                assert!(af.function.arity == pre.nargs);
            }
            _ => assert!(false, "frame pushed for a non-function"),
        }
        assert!(c04_locals_match_top(vm, out));
    }
}

macro_rules! c05_call {
    ($name:ident, $op:expr) => {
        #[kani::proof]
        #[kani::stub(std::hash::RandomState::new, stub_random_state)]
        #[kani::stub(std::fmt::format, stub_format)]
        #[kani::stub(crate::vm::VM::runtime_error, stub_runtime_error)]
        #[kani::stub(crate::vm::GlobalLayout::empty, stub_layout_empty)]
        #[kani::stub(crate::vm::VM::call_cached_native, stub_call_cached_native)]
        #[kani::stub(crate::vm::VM::ensure_function_verified, stub_ok_verified)]
        #[kani::stub(crate::vm::VM::prepare_globals_for_function, stub_prepare_globals)]
        #[kani::stub(crate::vm::VM::sync_current_function_globals, stub_sync_globals)]
        fn $name() {
            let (mut vm, pre) = c05_state($op);
            unsafe { VERIF_NATIVE_CALLED = 0; }
            let mut out = None;
            let r = vm.step_calls::<{ $op }>(&mut out);
            let called_native = unsafe { VERIF_NATIVE_CALLED };
            match (&r, &out) {
                (Ok(_), Some(o)) => {
                    if vm.frames.len() == 2 {
                        runs_current_binding(&vm, &pre, o);
                        assert!(called_native == 0);
                    } else if o.ip == 0 {
                        // the site re-dispatched itself (CallGlobalNative whose global no longer denotes a native):
                        // nothing was called yet, the instruction is now a cold CallGlobal with the same operands,
                        // whose own obligation (O2a) covers the call from this state
                        assert!(called_native == 0 && $op == 104);
                        assert!(pre.gval.as_ptr() != Some(pre.nat.index()));
                        let f = match &vm.heap.get(vm.frames[0].function).unwrap().kind { ObjectKind::Function(af) => &af.function, _ => unreachable!() };
                        assert!(f.bytecode[0] == ((77u32 << 24) | ((pre.dest as u32) << 16) | pre.nargs as u32));
                        assert!(f.bytecode[1] == 0 && f.bytecode[2] == 0);
                    } else {
                        // no frame pushed and no error: a native was called - the one the global denotes now
                        assert!(called_native == b'n');
                        assert!(pre.gval.as_ptr() == Some(pre.nat.index()));
                    }
                }
                (Err(_), _) => {
                    // an error is acceptable only if no user function was entered; a native may have failed
                    assert!(vm.frames.len() == 1);
                    if called_native != 0 { assert!(pre.gval.as_ptr() == Some(pre.nat.index())); }
                }
                _ => assert!(false, "call step returned a value"),
            }
            // a callable binding with matching arity is actually called, never refused
            if let Some(p) = pre.gval.as_ptr() {
                let ar = if p == pre.nat.index() { None } else {
                    match &vm.heap.get(GcRef::new(p)).unwrap().kind { ObjectKind::Function(af) => Some(af.function.arity), _ => None }
                };
                if ar == Some(pre.nargs) {
                    let redispatched = matches!(&out, Some(o) if o.ip == 0) && $op == 104;
                    assert!(r.is_ok() && (vm.frames.len() == 2 || redispatched));
                }
            }
            kani::cover!(pre.gval.as_ptr() == Some(pre.g2.index()) && r.is_ok(), "REQ G2 bound and the step succeeded");
            kani::cover!(called_native == b'n', "REQ native called");
            kani::cover!(r.is_err(), "REQ error outcome");
            std::mem::forget(r);
            std::mem::forget(vm);
        }
    };
}
c05_call!(c05_o2a_callglobal, 77);
c05_call!(c05_o2b_callglobalmono, 78);
c05_call!(c05_o2c_callglobalnative, 104);

/// O2e: rebinding a global by index leaves no cache entry behind (every later call re-resolves)
vm_harness! {
    fn c05_o2e_set_global_invalidates() {
        let (mut vm, pre) = c05_state(77);
        let v = Value::from_raw(kani::any());
        vm.set_global_by_index(0, v);
        assert!(vm.globals_by_index[0].raw_bits() == v.raw_bits());
        let mut i = 0;
        while i < vm.call_site_cache.len() {
            assert!(vm.call_site_cache[i].bytecode_ptr.is_null());
            i += 1;
        }
        kani::cover!(true, "REQ reached");
        std::mem::forget(vm);
    }
}
