// ---------------------------------------------------------------------------------------------
// C09 O4: byte buffers (std.bytes natives, runtime/src/stdlib/bytes.rs re-instantiated byte for byte).
// State: two live buffers (4 and 3 symbolic bytes) and one freed handle; every argument is an arbitrary Value
// (negative, huge, non-int, null). A legal access behaves like an independent fixed-size byte array; anything
// else - out of range, negative, width straddling the end, freed or never-issued handle, value out of range -
// is an error and changes no byte of any buffer.
// ---------------------------------------------------------------------------------------------

pub(crate) mod bytes_real {
    include!("/repo/runtime/src/stdlib/bytes.rs");
    pub(crate) fn v_read_u8(vm: &mut VM, a: &[Value]) -> Result<Value, RuntimeError> { native_read_u8(vm, a) }
    pub(crate) fn v_write_u8(vm: &mut VM, a: &[Value]) -> Result<Value, RuntimeError> { native_write_u8(vm, a) }
    pub(crate) fn v_read_u16(vm: &mut VM, a: &[Value]) -> Result<Value, RuntimeError> { native_read_u16(vm, a) }
    pub(crate) fn v_write_u16(vm: &mut VM, a: &[Value]) -> Result<Value, RuntimeError> { native_write_u16(vm, a) }
    pub(crate) fn v_read_i16_be(vm: &mut VM, a: &[Value]) -> Result<Value, RuntimeError> { native_read_i16_be(vm, a) }
    pub(crate) fn v_write_i16_be(vm: &mut VM, a: &[Value]) -> Result<Value, RuntimeError> { native_write_i16_be(vm, a) }
    pub(crate) fn v_read_u32(vm: &mut VM, a: &[Value]) -> Result<Value, RuntimeError> { native_read_u32(vm, a) }
    pub(crate) fn v_write_u32(vm: &mut VM, a: &[Value]) -> Result<Value, RuntimeError> { native_write_u32(vm, a) }
    pub(crate) fn v_read_i8(vm: &mut VM, a: &[Value]) -> Result<Value, RuntimeError> { native_read_i8(vm, a) }
    pub(crate) fn v_write_i8(vm: &mut VM, a: &[Value]) -> Result<Value, RuntimeError> { native_write_i8(vm, a) }
    pub(crate) fn v_read_i16(vm: &mut VM, a: &[Value]) -> Result<Value, RuntimeError> { native_read_i16(vm, a) }
    pub(crate) fn v_write_i16(vm: &mut VM, a: &[Value]) -> Result<Value, RuntimeError> { native_write_i16(vm, a) }
    pub(crate) fn v_read_u16_be(vm: &mut VM, a: &[Value]) -> Result<Value, RuntimeError> { native_read_u16_be(vm, a) }
    pub(crate) fn v_write_u16_be(vm: &mut VM, a: &[Value]) -> Result<Value, RuntimeError> { native_write_u16_be(vm, a) }
    pub(crate) fn v_read_i32(vm: &mut VM, a: &[Value]) -> Result<Value, RuntimeError> { native_read_i32(vm, a) }
    pub(crate) fn v_write_i32(vm: &mut VM, a: &[Value]) -> Result<Value, RuntimeError> { native_write_i32(vm, a) }
    pub(crate) fn v_read_u32_be(vm: &mut VM, a: &[Value]) -> Result<Value, RuntimeError> { native_read_u32_be(vm, a) }
    pub(crate) fn v_write_u32_be(vm: &mut VM, a: &[Value]) -> Result<Value, RuntimeError> { native_write_u32_be(vm, a) }
    pub(crate) fn v_read_i32_be(vm: &mut VM, a: &[Value]) -> Result<Value, RuntimeError> { native_read_i32_be(vm, a) }
    pub(crate) fn v_write_i32_be(vm: &mut VM, a: &[Value]) -> Result<Value, RuntimeError> { native_write_i32_be(vm, a) }
    pub(crate) fn v_fill(vm: &mut VM, a: &[Value]) -> Result<Value, RuntimeError> { native_fill(vm, a) }
    pub(crate) fn v_copy(vm: &mut VM, a: &[Value]) -> Result<Value, RuntimeError> { native_copy(vm, a) }
    pub(crate) fn v_size(vm: &mut VM, a: &[Value]) -> Result<Value, RuntimeError> { native_size(vm, a) }
    pub(crate) fn v_free(vm: &mut VM, a: &[Value]) -> Result<Value, RuntimeError> { native_free(vm, a) }
    // second part (c09_bytes2.rs)
    pub(crate) fn v_resize(vm: &mut VM, a: &[Value]) -> Result<Value, RuntimeError> { native_resize(vm, a) }
    pub(crate) fn v_clone(vm: &mut VM, a: &[Value]) -> Result<Value, RuntimeError> { native_clone(vm, a) }
    pub(crate) fn v_read_u64(vm: &mut VM, a: &[Value]) -> Result<Value, RuntimeError> { native_read_u64(vm, a) }
    pub(crate) fn v_write_u64(vm: &mut VM, a: &[Value]) -> Result<Value, RuntimeError> { native_write_u64(vm, a) }
    pub(crate) fn v_read_i64_be(vm: &mut VM, a: &[Value]) -> Result<Value, RuntimeError> { native_read_i64_be(vm, a) }
    pub(crate) fn v_write_i64_be(vm: &mut VM, a: &[Value]) -> Result<Value, RuntimeError> { native_write_i64_be(vm, a) }
    pub(crate) fn v_read_i64(vm: &mut VM, a: &[Value]) -> Result<Value, RuntimeError> { native_read_i64(vm, a) }
    pub(crate) fn v_write_i64(vm: &mut VM, a: &[Value]) -> Result<Value, RuntimeError> { native_write_i64(vm, a) }
    pub(crate) fn v_read_u64_be(vm: &mut VM, a: &[Value]) -> Result<Value, RuntimeError> { native_read_u64_be(vm, a) }
    pub(crate) fn v_write_u64_be(vm: &mut VM, a: &[Value]) -> Result<Value, RuntimeError> { native_write_u64_be(vm, a) }
    pub(crate) fn v_read_f32(vm: &mut VM, a: &[Value]) -> Result<Value, RuntimeError> { native_read_f32(vm, a) }
    pub(crate) fn v_write_f32(vm: &mut VM, a: &[Value]) -> Result<Value, RuntimeError> { native_write_f32(vm, a) }
    pub(crate) fn v_read_f32_be(vm: &mut VM, a: &[Value]) -> Result<Value, RuntimeError> { native_read_f32_be(vm, a) }
    pub(crate) fn v_write_f32_be(vm: &mut VM, a: &[Value]) -> Result<Value, RuntimeError> { native_write_f32_be(vm, a) }
    pub(crate) fn v_read_f64(vm: &mut VM, a: &[Value]) -> Result<Value, RuntimeError> { native_read_f64(vm, a) }
    pub(crate) fn v_write_f64(vm: &mut VM, a: &[Value]) -> Result<Value, RuntimeError> { native_write_f64(vm, a) }
    pub(crate) fn v_read_f64_be(vm: &mut VM, a: &[Value]) -> Result<Value, RuntimeError> { native_read_f64_be(vm, a) }
    pub(crate) fn v_write_f64_be(vm: &mut VM, a: &[Value]) -> Result<Value, RuntimeError> { native_write_f64_be(vm, a) }
    pub(crate) fn v_swap(vm: &mut VM, a: &[Value]) -> Result<Value, RuntimeError> { native_swap(vm, a) }
    pub(crate) fn v_reverse(vm: &mut VM, a: &[Value]) -> Result<Value, RuntimeError> { native_reverse(vm, a) }
    pub(crate) fn v_equals(vm: &mut VM, a: &[Value]) -> Result<Value, RuntimeError> { native_equals(vm, a) }
}

use crate::stdlib::{ByteBuffer, Resource};

const B0: usize = 4;
const B1: usize = 3;

struct Bufs { m0: [u8; B0], m1: [u8; B1] }

fn bytes_vm() -> (VM, Bufs) {
    let mut vm = verif_vm();
    let m0: [u8; B0] = kani::any();
    let m1: [u8; B1] = kani::any();
    vm.resources = vec![
        Some(Resource::ByteBuffer(ByteBuffer { data: m0.to_vec() })),
        Some(Resource::ByteBuffer(ByteBuffer { data: m1.to_vec() })),
        None, // a handle that was issued and freed
    ];
    (vm, Bufs { m0, m1 })
}

fn buf<'a>(vm: &'a VM, h: usize) -> &'a [u8] {
    match vm.get_resource(h) { Some(Resource::ByteBuffer(b)) => &b.data, _ => &[] }
}

/// both buffers hold exactly the model's bytes (lengths included) and the freed handle is still free
fn agrees(vm: &VM, m: &Bufs) -> bool {
    let (a, b) = (buf(vm, 0), buf(vm, 1));
    if a.len() != B0 || b.len() != B1 || vm.get_resource(2).is_some() || vm.resources.len() != 3 { return false; }
    let mut ok = true;
    let mut i = 0;
    while i < B0 { ok &= a[i] == m.m0[i]; i += 1; }
    let mut j = 0;
    while j < B1 { ok &= b[j] == m.m1[j]; j += 1; }
    ok
}

fn idx(v: Value) -> Option<usize> { match v.as_int() { Some(i) if i >= 0 => Some(i as usize), _ => None } }
fn blen(h: usize) -> usize { if h == 0 { B0 } else if h == 1 { B1 } else { 0 } }

/// legal access of `w` bytes at (handle value, offset value): Some((h, off))
fn legal(hv: Value, ov: Value, w: usize) -> Option<(usize, usize)> {
    let (h, o) = (idx(hv)?, idx(ov)?);
    if h <= 1 && o <= blen(h) && w <= blen(h) - o { Some((h, o)) } else { None }
}

fn mget(m: &Bufs, h: usize, i: usize) -> u8 { if h == 0 { m.m0[i] } else { m.m1[i] } }
fn mset(m: &mut Bufs, h: usize, i: usize, v: u8) { if h == 0 { m.m0[i] = v } else { m.m1[i] = v } }

// (a single harness doing a symbolic write followed by a symbolic read ran out of memory at 14 GB: split in two;
//  write-then-read round trips follow from the two halves, both stated against the same byte-array model)
macro_rules! bytes_w {
    ($name:ident, $w:expr, $write:ident, $min:expr, $max:expr, $enc:expr) => {
        vm_harness! {
            fn $name() {
                let (mut vm, mut m) = bytes_vm();
                let (hv, ov, vv) = (Value::from_raw(kani::any()), Value::from_raw(kani::any()), Value::from_raw(kani::any()));
                let wr = bytes_real::$write(&mut vm, &[hv, ov, vv]);
                let val_ok = match vv.as_int() { Some(x) => x >= $min && x <= $max, None => false };
                match (legal(hv, ov, $w), val_ok) {
                    (Some((h, o)), true) => {
                        assert!(wr.is_ok());
                        let e: [u8; $w] = ($enc)(vv.as_int().unwrap());
                        let mut k = 0;
                        while k < $w { mset(&mut m, h, o + k, e[k]); k += 1; }
                    }
                    _ => assert!(wr.is_err()), // refused: the model is not touched either
                }
                // exactly the addressed bytes changed; every other byte of both buffers is as before
                assert!(agrees(&vm, &m));
                kani::cover!(legal(hv, ov, $w).is_some() && val_ok, "REQ legal write");
                kani::cover!(idx(hv) == Some(1) && idx(ov) == Some(B1 - 1) && ($w > 1 || !val_ok), "REQ refused write at the last byte");
                kani::cover!(idx(hv) == Some(2), "REQ freed handle");
                std::mem::forget(vm);
            }
        }
    };
}
macro_rules! bytes_r {
    ($name:ident, $w:expr, $read:ident, $dec:expr) => {
        vm_harness! {
            fn $name() {
                let (mut vm, m) = bytes_vm();
                let (h2, o2) = (Value::from_raw(kani::any()), Value::from_raw(kani::any()));
                let rd = bytes_real::$read(&mut vm, &[h2, o2]);
                match legal(h2, o2, $w) {
                    Some((h, o)) => {
                        let mut e = [0u8; $w];
                        let mut k = 0;
                        while k < $w { e[k] = mget(&m, h, o + k); k += 1; }
                        let want: i64 = ($dec)(e);
                        assert!(rd.ok().and_then(|v| v.as_int()) == Some(want));
                    }
                    None => assert!(rd.is_err()),
                }
                assert!(agrees(&vm, &m)); // a read changes nothing
                kani::cover!(legal(h2, o2, $w).is_some(), "REQ legal read");
                kani::cover!(idx(h2) == Some(2), "REQ freed handle");
                std::mem::forget(vm);
            }
        }
    };
}
bytes_w!(c09_o4_w_u8, 1, v_write_u8, 0, 255, |x: i64| [x as u8]);
bytes_r!(c09_o4_r_u8, 1, v_read_u8, |e: [u8; 1]| e[0] as i64);
bytes_w!(c09_o4_w_u16_le, 2, v_write_u16, 0, 65535, |x: i64| (x as u16).to_le_bytes());
bytes_r!(c09_o4_r_u16_le, 2, v_read_u16, |e: [u8; 2]| u16::from_le_bytes(e) as i64);
bytes_w!(c09_o4_w_i16_be, 2, v_write_i16_be, -32768, 32767, |x: i64| (x as i16).to_be_bytes());
bytes_r!(c09_o4_r_i16_be, 2, v_read_i16_be, |e: [u8; 2]| i16::from_be_bytes(e) as i64);
bytes_w!(c09_o4_w_u32_le, 4, v_write_u32, 0, 4294967295i64, |x: i64| (x as u32).to_le_bytes());
bytes_r!(c09_o4_r_u32_le, 4, v_read_u32, |e: [u8; 4]| u32::from_le_bytes(e) as i64);

bytes_w!(c09_o4_w_i8, 1, v_write_i8, -128, 127, |x: i64| [(x as i8) as u8]);
bytes_r!(c09_o4_r_i8, 1, v_read_i8, |e: [u8; 1]| (e[0] as i8) as i64);
bytes_w!(c09_o4_w_i16_le, 2, v_write_i16, -32768, 32767, |x: i64| (x as i16).to_le_bytes());
bytes_r!(c09_o4_r_i16_le, 2, v_read_i16, |e: [u8; 2]| i16::from_le_bytes(e) as i64);
bytes_w!(c09_o4_w_u16_be, 2, v_write_u16_be, 0, 65535, |x: i64| (x as u16).to_be_bytes());
bytes_r!(c09_o4_r_u16_be, 2, v_read_u16_be, |e: [u8; 2]| u16::from_be_bytes(e) as i64);
bytes_w!(c09_o4_w_i32_le, 4, v_write_i32, -2147483648i64, 2147483647i64, |x: i64| (x as i32).to_le_bytes());
bytes_r!(c09_o4_r_i32_le, 4, v_read_i32, |e: [u8; 4]| i32::from_le_bytes(e) as i64);
bytes_w!(c09_o4_w_u32_be, 4, v_write_u32_be, 0, 4294967295i64, |x: i64| (x as u32).to_be_bytes());
bytes_r!(c09_o4_r_u32_be, 4, v_read_u32_be, |e: [u8; 4]| u32::from_be_bytes(e) as i64);
bytes_w!(c09_o4_w_i32_be, 4, v_write_i32_be, -2147483648i64, 2147483647i64, |x: i64| (x as i32).to_be_bytes());
bytes_r!(c09_o4_r_i32_be, 4, v_read_i32_be, |e: [u8; 4]| i32::from_be_bytes(e) as i64);

vm_harness! {
    fn c09_o4_fill() {
        let (mut vm, mut m) = bytes_vm();
        let (hv, ov, lv, vv) = (Value::from_raw(kani::any()), Value::from_raw(kani::any()), Value::from_raw(kani::any()), Value::from_raw(kani::any()));
        let r = bytes_real::v_fill(&mut vm, &[hv, ov, lv, vv]);
        let val_ok = match vv.as_int() { Some(x) => x >= 0 && x <= 255, None => false };
        match (idx(hv), idx(ov), idx(lv)) {
            (Some(h), Some(o), Some(n)) if val_ok && (n == 0 || (h <= 1 && o <= blen(h) && n <= blen(h) - o)) => {
                // (a zero-length fill is a no-op whatever the handle)
                assert!(r.is_ok());
                let mut k = 0;
                while k < n { mset(&mut m, h, o + k, vv.as_int().unwrap() as u8); k += 1; }
            }
            _ => assert!(r.is_err()),
        }
        assert!(agrees(&vm, &m));
        kani::cover!(r.is_ok() && idx(lv) == Some(3), "REQ three bytes filled");
        kani::cover!(r.is_err() && idx(hv) == Some(0), "REQ out-of-range fill refused");
        std::mem::forget(vm);
    }
}

vm_harness! {
    fn c09_o4_copy() {
        let (mut vm, mut m) = bytes_vm();
        let (sh, so, dh, dof, lv) = (Value::from_raw(kani::any()), Value::from_raw(kani::any()), Value::from_raw(kani::any()), Value::from_raw(kani::any()), Value::from_raw(kani::any()));
        let r = bytes_real::v_copy(&mut vm, &[sh, so, dh, dof, lv]);
        match (idx(sh), idx(so), idx(dh), idx(dof), idx(lv)) {
            (Some(s), Some(a), Some(d), Some(b), Some(n))
                if n == 0 || (s <= 1 && d <= 1 && a <= blen(s) && n <= blen(s) - a && b <= blen(d) && n <= blen(d) - b) => {
                assert!(r.is_ok());
                // memmove semantics: the source range is read as it was before the copy, also when the ranges overlap
                let mut tmp = [0u8; B0];
                let mut k = 0;
                while k < n { tmp[k] = mget(&m, s, a + k); k += 1; }
                let mut k = 0;
                while k < n { mset(&mut m, d, b + k, tmp[k]); k += 1; }
            }
            _ => assert!(r.is_err()),
        }
        assert!(agrees(&vm, &m));
        kani::cover!(r.is_ok() && idx(sh) == idx(dh) && idx(lv) == Some(2) && idx(so) == Some(0) && idx(dof) == Some(1), "REQ overlapping copy inside one buffer");
        kani::cover!(r.is_ok() && idx(sh) == Some(0) && idx(dh) == Some(1) && idx(lv) == Some(3), "REQ copy between buffers");
        std::mem::forget(vm);
    }
}

vm_harness! {
    fn c09_o4_size_free() {
        let (mut vm, m) = bytes_vm();
        let hv = Value::from_raw(kani::any());
        let sz = bytes_real::v_size(&mut vm, &[hv]);
        match idx(hv) {
            Some(h) if h <= 1 => assert!(sz.ok().and_then(|v| v.as_int()) == Some(blen(h) as i64)),
            _ => assert!(sz.is_err()),
        }
        assert!(agrees(&vm, &m));
        let fr = bytes_real::v_free(&mut vm, &[hv]);
        match idx(hv) {
            Some(h) if h <= 1 => {
                // freed: that handle is dead, the other buffer is untouched
                assert!(fr.is_ok() && vm.get_resource(h).is_none());
                let other = 1 - h;
                let o = buf(&vm, other);
                assert!(o.len() == blen(other));
                let mut i = 0;
                while i < blen(other) { assert!(o[i] == mget(&m, other, i)); i += 1; }
                // a second free is reported
                let again = bytes_real::v_free(&mut vm, &[hv]);
                assert!(again.is_err());
            }
            _ => {
                if hv.is_null() { assert!(fr.is_ok()); } else { assert!(fr.is_err()); }
                assert!(agrees(&vm, &m));
            }
        }
        kani::cover!(idx(hv) == Some(1), "REQ legal free");
        kani::cover!(idx(hv) == Some(2), "REQ freed handle");
        std::mem::forget(vm);
    }
}
