// ---------------------------------------------------------------------------------------------
// C09 O3: manual-memory opcodes against an executable model, one step from a manual heap holding
//         a live 2-slot buffer (handle 0, symbolic contents) and a freed buffer (handle 1).
// C09 O1: two-operation histories on the real ManualHeap (public API) against the same model.
// C13 O1/O2: EnterNoGc / ExitNoGc depth arithmetic and "maybe_collect does nothing inside a region".
// ---------------------------------------------------------------------------------------------

pub(crate) struct MemPre {
    pub c0: Value,
    pub c1: Value,
    pub abc: u32,
    pub base: usize,
    pub regs: [u64; VERIF_REGS],
}

/// VM with manual heap { 0: live [c0, c1], 1: freed }, budget `headroom` bytes from the limit, one instruction `op|abc`
pub(crate) fn mem_vm(op: u8, headroom: u64) -> (VM, MemPre) {
    let mut vm = verif_vm();
    let abc: u32 = kani::any();
    kani::assume(abc <= 0x00FF_FFFF);
    let f = mk_function(vec![((op as u32) << 24) | abc, 23u32 << 24], vec![], 0, 3);
    let fr = install_function(&mut vm, f);
    let h0 = vm.manual_heap.alloc(2, 0).unwrap();
    let h1 = vm.manual_heap.alloc(1, 0).unwrap();
    vm.manual_heap.free(h1, 0).unwrap();
    let c0 = Value::from_raw(kani::any());
    let c1 = Value::from_raw(kani::any());
    vm.manual_heap.store(h0, 0, c0).unwrap();
    vm.manual_heap.store(h0, 1, c1).unwrap();
    vm.config.max_heap_bytes = (vm.heap.bytes_allocated() + vm.manual_heap.bytes_allocated()) as u64 + headroom;
    let base: usize = kani::any();
    kani::assume(base <= 2);
    push_function_frame(&mut vm, fr, base, 0);
    let regs: [u64; VERIF_REGS] = kani::any();
    let mut i = 0;
    while i < VERIF_REGS {
        vm.registers[i] = Value::from_raw(regs[i]);
        i += 1;
    }
    (vm, MemPre { c0, c1, abc, base, regs })
}

fn field(abc: u32, which: u8) -> usize {
    (match which { 0 => abc >> 16, 1 => abc >> 8, _ => abc } & 0xFF) as usize
}

/// buffer 0 still holds (x0, x1), buffer 1 is still freed, and the charge is exactly 16 bytes
fn mem_unchanged(vm: &VM, x0: Value, x1: Value) -> bool {
    let a = vm.manual_heap.load(0, 0);
    let b = vm.manual_heap.load(0, 1);
    let ok0 = match (a, b) { (Ok(p), Ok(q)) => p.raw_bits() == x0.raw_bits() && q.raw_bits() == x1.raw_bits(), _ => false };
    ok0 && vm.manual_heap.size(0).ok() == Some(2) && vm.manual_heap.size(1).is_err() && vm.manual_heap.bytes_allocated() == 16
}

fn as_index(v: Value) -> Option<usize> {
    match v.as_int() { Some(i) if i >= 0 => Some(i as usize), _ => None }
}

// ---- LoadMem (30) / LoadMemI (31)
macro_rules! c09_load {
    ($name:ident, $op:expr, $imm:expr) => {
        vm_harness! {
            fn $name() {
                let (mut vm, pre) = mem_vm($op, 64);
                let (ra, rb) = (pre.base + field(pre.abc, 0), pre.base + field(pre.abc, 1));
                kani::assume(ra < VERIF_REGS && rb < VERIF_REGS);
                let hv = Value::from_raw(pre.regs[rb]);
                let off = if $imm { Some(field(pre.abc, 2)) } else {
                    let rc = pre.base + field(pre.abc, 2);
                    kani::assume(rc < VERIF_REGS);
                    as_index(Value::from_raw(pre.regs[rc]))
                };
                let mut out = None;
                let r = vm.step_memory::<{ $op }>(&mut out);
                let legal = as_index(hv) == Some(0) && matches!(off, Some(0) | Some(1));
                if legal {
                    assert!(r.is_ok() && out.is_some());
                    let want = if off == Some(0) { pre.c0 } else { pre.c1 };
                    assert!(vm.registers[ra].raw_bits() == want.raw_bits());
                } else {
                    // out of range, negative, non-int, freed or never-issued handle: an error
                    assert!(r.is_err());
                }
                assert!(mem_unchanged(&vm, pre.c0, pre.c1));
                kani::cover!(legal, "REQ legal load");
                kani::cover!(!legal && as_index(hv) == Some(1), "REQ load through a freed handle");
                kani::cover!(!legal && as_index(hv) == Some(0), "REQ out-of-range offset");
                std::mem::forget(r);
                std::mem::forget(vm);
            }
        }
    };
}
c09_load!(c09_o3_loadmem, 30, false);
c09_load!(c09_o3_loadmemi, 31, true);

// ---- StoreMem (32) / StoreMemI (33)
macro_rules! c09_store {
    ($name:ident, $op:expr, $imm:expr) => {
        vm_harness! {
            fn $name() {
                let (mut vm, pre) = mem_vm($op, 64);
                let (ra, rc) = (pre.base + field(pre.abc, 0), pre.base + field(pre.abc, 2));
                kani::assume(ra < VERIF_REGS && rc < VERIF_REGS);
                let hv = Value::from_raw(pre.regs[ra]);
                let val = Value::from_raw(pre.regs[rc]);
                let off = if $imm { Some(field(pre.abc, 1)) } else {
                    let rb = pre.base + field(pre.abc, 1);
                    kani::assume(rb < VERIF_REGS);
                    as_index(Value::from_raw(pre.regs[rb]))
                };
                let mut out = None;
                let r = vm.step_memory::<{ $op }>(&mut out);
                let legal = as_index(hv) == Some(0) && matches!(off, Some(0) | Some(1));
                if legal {
                    assert!(r.is_ok() && out.is_some());
                    // the addressed slot holds the stored value, the other slot is untouched
                    if off == Some(0) { assert!(mem_unchanged(&vm, val, pre.c1)); } else { assert!(mem_unchanged(&vm, pre.c0, val)); }
                } else {
                    assert!(r.is_err());
                    assert!(mem_unchanged(&vm, pre.c0, pre.c1));
                }
                kani::cover!(legal, "REQ legal store");
                kani::cover!(!legal, "REQ refused store");
                std::mem::forget(r);
                std::mem::forget(vm);
            }
        }
    };
}
c09_store!(c09_o3_storemem, 32, false);
c09_store!(c09_o3_storememi, 33, true);

// ---- Free (29)
vm_harness! {
    fn c09_o3_free() {
        let (mut vm, pre) = mem_vm(29, 64);
        let ra = pre.base + field(pre.abc, 0);
        kani::assume(ra < VERIF_REGS);
        let hv = Value::from_raw(pre.regs[ra]);
        let mut out = None;
        let r = vm.step_memory::<29>(&mut out);
        if as_index(hv) == Some(0) {
            assert!(r.is_ok());
            assert!(vm.manual_heap.size(0).is_err() && vm.manual_heap.bytes_allocated() == 0);
        } else if hv.is_null() {
            // free(null) is a documented no-op (builtin_free)
            assert!(r.is_ok());
            assert!(mem_unchanged(&vm, pre.c0, pre.c1));
        } else {
            // second free, never-issued, negative or non-integer handle: reported, nothing changes
            assert!(r.is_err());
            assert!(mem_unchanged(&vm, pre.c0, pre.c1));
            // "changes nothing" includes the allocator's free list: the next two buffers get distinct handles, neither
            // of them the live buffer 0
            let x = vm.manual_heap.alloc(1, 0).ok();
            let y = vm.manual_heap.alloc(1, 0).ok();
            assert!(x.is_some() && y.is_some() && x != y && x != Some(0) && y != Some(0));
        }
        kani::cover!(as_index(hv) == Some(0), "REQ legal free");
        kani::cover!(as_index(hv) == Some(1), "REQ double free");
        kani::cover!(hv.is_int() && as_index(hv).is_none(), "REQ negative handle");
        std::mem::forget(r);
        std::mem::forget(vm);
    }
}

// ---- Alloc (28): budget 40 bytes => at most 5 slots can be granted
vm_harness! {
    fn c09_o3_alloc() {
        let (mut vm, pre) = mem_vm(28, 40);
        let (ra, rb) = (pre.base + field(pre.abc, 0), pre.base + field(pre.abc, 1));
        kani::assume(ra < VERIF_REGS && rb < VERIF_REGS);
        let sv = Value::from_raw(pre.regs[rb]);
        let mut out = None;
        let r = vm.step_memory::<28>(&mut out);
        match as_index(sv) {
            Some(n) if n >= 1 && n <= 5 => {
                assert!(r.is_ok() && out.is_some());
                let h = vm.registers[ra].as_int();
                // the handle is a buffer that was not live before (slot 1 is recycled), of the requested size, all null
                assert!(h == Some(1));
                assert!(vm.manual_heap.size(1).ok() == Some(n));
                assert!(vm.manual_heap.load(1, n - 1).ok().map(|v| v.is_null()) == Some(true));
                // exactly accounted: 8 bytes per live slot
                assert!(vm.manual_heap.bytes_allocated() == 16 + 8 * n);
                // the other buffer is untouched
                assert!(vm.manual_heap.load(0, 0).ok().map(|v| v.raw_bits()) == Some(pre.c0.raw_bits()));
                assert!(vm.manual_heap.load(0, 1).ok().map(|v| v.raw_bits()) == Some(pre.c1.raw_bits()));
            }
            _ => {
                // zero, negative, non-integer or over-budget size: an error and no change
                assert!(r.is_err());
                assert!(mem_unchanged(&vm, pre.c0, pre.c1));
                if let (Some(n), Err(e)) = (as_index(sv), &r) {
                    if n > 5 { assert!(matches!(e.kind, RuntimeErrorKind::OutOfMemory { .. })); }
                }
            }
        }
        kani::cover!(r.is_ok(), "REQ allocation granted");
        kani::cover!(matches!(as_index(sv), Some(n) if n > 5), "REQ over budget");
        std::mem::forget(r);
        std::mem::forget(vm);
    }
}

// ---- C09 O1: two-operation histories on the real ManualHeap against the model (public API only)
#[derive(Clone, Copy)]
struct ModelBuf { live: bool, len: usize, d: [u64; 2] }

fn model_bytes(m: &[ModelBuf; 3]) -> usize {
    let mut s = 0;
    let mut i = 0;
    while i < 3 { if m[i].live { s += 8 * m[i].len; } i += 1; }
    s
}

#[kani::proof]
#[kani::unwind(5)]
fn c09_o1_history2() {
    let mut h = ManualHeap::new();
    let mut m = [ModelBuf { live: false, len: 0, d: [0; 2] }; 3];
    let mut issued = 0usize; // number of slots ever issued (model of handle space)
    let mut freed: [bool; 3] = [false; 3];
    let mut step = 0;
    while step < 2 {
        let kind: u8 = kani::any();
        kani::assume(kind < 5);
        let hd: usize = kani::any();
        let off: usize = kani::any();
        let v = Value::from_raw(kani::any());
        let size: usize = kani::any();
        kani::assume(size <= 2);
        let before = h.bytes_allocated();
        let valid = hd < issued && m[if hd < 3 { hd } else { 0 }].live;
        match kind {
            0 => {
                let r = h.alloc(size, 0);
                if size == 0 { assert!(r.is_err() && h.bytes_allocated() == before); } else {
                    let got = r.ok().unwrap();
                    assert!(got < 3 && !m[got].live); // a fresh or recycled handle, never a live one
                    if got >= issued { issued = got + 1; }
                    m[got] = ModelBuf { live: true, len: size, d: [Value::null().raw_bits(); 2] };
                    freed[got] = false;
                }
            }
            1 => {
                let r = h.free(hd, 0);
                assert!(r.is_ok() == valid);
                if valid { m[hd].live = false; freed[hd] = true; } else { assert!(h.bytes_allocated() == before); }
            }
            2 => {
                let r = h.load(hd, off);
                let ok = valid && off < m[if hd < 3 { hd } else { 0 }].len;
                assert!(r.is_ok() == ok);
                if ok { assert!(r.ok().unwrap().raw_bits() == m[hd].d[off]); }
            }
            3 => {
                let r = h.store(hd, off, v);
                let ok = valid && off < m[if hd < 3 { hd } else { 0 }].len;
                assert!(r.is_ok() == ok);
                if ok { m[hd].d[off] = v.raw_bits(); }
            }
            _ => {
                let r = h.size(hd);
                assert!(r.is_ok() == valid);
                if valid { assert!(r.ok().unwrap() == m[hd].len); }
            }
        }
        // the charge always equals the total size of live buffers
        assert!(h.bytes_allocated() == model_bytes(&m));
        step += 1;
    }
    kani::cover!(m[0].live && m[1].live, "REQ two live buffers");
    kani::cover!(freed[0], "REQ a buffer was freed");
    std::mem::forget(h);
}

/// alloc / free / alloc: the recycled slot is charged like a fresh one (sizes symbolic; the 9-operation version of this
/// history ran out of memory at 14 GB)
// NOT REGISTERED: the solver runs out of memory at 14 GB (symbolic Vec lengths); see O3alloc and C10 O1manual
#[cfg(any())]
#[kani::proof]
#[kani::unwind(4)]
fn c09_o1_recycle() {
    let mut h = ManualHeap::new();
    let s1: usize = kani::any();
    let s3: usize = kani::any();
    kani::assume(s1 >= 1 && s1 <= 2 && s3 >= 1 && s3 <= 2);
    let a = h.alloc(s1, 0).ok().unwrap();
    h.free(a, 0).ok().unwrap();
    assert!(h.free(a, 0).is_err()); // second free is reported
    assert!(h.load(a, 0).is_err()); // use after free is reported
    assert!(h.bytes_allocated() == 0);
    let c = h.alloc(s3, 0).ok().unwrap();
    assert!(h.bytes_allocated() == 8 * s3);
    assert!(h.size(c).ok() == Some(s3) && h.load(c, s3 - 1).ok().map(|x| x.is_null()) == Some(true));
    kani::cover!(c == a, "REQ slot recycled");
    std::mem::forget(h);
}

// ------------------------------------------------------------------ C13
vm_harness! {
    fn c13_o1_enter() {
        let (mut vm, pre) = mem_vm(26, 64);
        let d: usize = kani::any();
        kani::assume(d < usize::MAX);
        vm.no_gc_depth = d;
        let nframes = vm.frames.len();
        let mut out = None;
        let r = vm.step_memory::<26>(&mut out);
        assert!(r.is_ok() && out.is_some());
        assert!(vm.no_gc_depth == d + 1); // every entry is counted, at any depth
        assert!(vm.frames.len() == nframes && mem_unchanged(&vm, pre.c0, pre.c1));
        kani::cover!(d == 64, "REQ depth 64");
        std::mem::forget(r);
        std::mem::forget(vm);
    }
}

vm_harness! {
    fn c13_o1_exit() {
        let (mut vm, pre) = mem_vm(27, 64);
        let d: usize = kani::any();
        vm.no_gc_depth = d;
        let mut out = None;
        let r = vm.step_memory::<27>(&mut out);
        if d > 0 {
            assert!(r.is_ok() && out.is_some() && vm.no_gc_depth == d - 1);
        } else {
            assert!(vm.no_gc_depth == 0);
            match &r { Err(e) => assert!(matches!(e.kind, RuntimeErrorKind::InvalidBytecode(_))), Ok(_) => assert!(false) }
        }
        assert!(mem_unchanged(&vm, pre.c0, pre.c1));
        kani::cover!(d == 0, "REQ underflow case");
        kani::cover!(d == 65, "REQ deep nesting");
        std::mem::forget(r);
        std::mem::forget(vm);
    }
}

/// O2: inside a region (depth concretely 1, 2, 64) maybe_collect leaves the heap alone even though the threshold is crossed
macro_rules! c13_no_collect {
    ($name:ident, $depth:expr) => {
        vm_harness! {
            fn $name() {
                let mut vm = verif_vm();
                let s = vm.heap.alloc_string("ab");
                let t = vm.heap.alloc_string("c");
                let bytes = vm.heap.bytes_allocated();
                // the collection threshold is crossed: outside a region a collection would run now
                vm.heap.verif_set_gc_threshold(kani::any());
                kani::assume(vm.heap.should_collect());
                vm.no_gc_depth = $depth;
                vm.maybe_collect();
                assert!(vm.heap.bytes_allocated() == bytes && vm.heap.object_count() == 2);
                assert!(vm.heap.get(s).is_some() && vm.heap.get(t).is_some());
                assert!(vm.no_gc_depth == $depth);
                kani::cover!(true, "REQ reached");
                std::mem::forget(vm);
            }
        }
    };
}
c13_no_collect!(c13_o2_no_collect_depth1, 1);
c13_no_collect!(c13_o2_no_collect_depth2, 2);
c13_no_collect!(c13_o2_no_collect_depth64, 64);

/// O1b: ExitNoGc while an outer region is still open (depth stays > 0) never starts a collection, even with the
/// threshold crossed; leaving the outermost region may.
#[kani::proof]
#[kani::stub(std::hash::RandomState::new, stub_random_state)]
#[kani::stub(std::fmt::format, stub_format)]
#[kani::stub(crate::vm::VM::runtime_error, stub_runtime_error)]
#[kani::stub(crate::vm::GlobalLayout::empty, stub_layout_empty)]
#[kani::stub(crate::vm::VM::collect, stub_collect)]
fn c13_o1b_exit_inner_region_no_collect() {
    let (mut vm, _pre) = mem_vm(27, 64);
    vm.heap.verif_set_gc_threshold(kani::any());
    kani::assume(vm.heap.should_collect());
    let d: usize = kani::any();
    kani::assume(d >= 2); // an outer region stays open after this exit
    vm.no_gc_depth = d;
    unsafe { VERIF_COLLECTED = false; }
    let mut out = None;
    let r = vm.step_memory::<27>(&mut out);
    assert!(r.is_ok() && vm.no_gc_depth == d - 1);
    assert!(unsafe { !VERIF_COLLECTED });
    kani::cover!(d == 2, "REQ leaving an inner region");
    std::mem::forget(r);
    std::mem::forget(vm);
}

/// O2b: maybe_collect starts a collection exactly when no region is open and the threshold is crossed
#[kani::proof]
#[kani::stub(std::hash::RandomState::new, stub_random_state)]
#[kani::stub(crate::vm::GlobalLayout::empty, stub_layout_empty)]
#[kani::stub(crate::vm::VM::collect, stub_collect)]
fn c13_o2b_maybe_collect_iff() {
    let mut vm = verif_vm();
    vm.heap.alloc_string("ab");
    vm.heap.verif_set_gc_threshold(kani::any());
    let d: usize = kani::any();
    vm.no_gc_depth = d;
    unsafe { VERIF_COLLECTED = false; }
    let crossed = vm.heap.should_collect();
    vm.maybe_collect();
    assert!(unsafe { VERIF_COLLECTED } == (d == 0 && crossed));
    assert!(vm.no_gc_depth == d);
    kani::cover!(d == 0 && crossed, "REQ collection outside a region");
    kani::cover!(d > 0 && crossed, "REQ suppressed inside a region");
    std::mem::forget(vm);
}

/// O3: an allocating opcode executed inside a region (depth 1) with the threshold crossed never starts a collection
macro_rules! c13_step_no_collect {
    ($name:ident, $step:ident, $op:expr, $pool:expr) => {
        #[kani::proof]
        #[kani::stub(std::hash::RandomState::new, stub_random_state)]
        #[kani::stub(std::fmt::format, stub_format)]
        #[kani::stub(crate::vm::VM::runtime_error, stub_runtime_error)]
        #[kani::stub(crate::vm::GlobalLayout::empty, stub_layout_empty)]
        #[kani::stub(crate::vm::VM::call_cached_native, stub_call_cached_native)]
        #[kani::stub(crate::vm::VM::ensure_function_verified, stub_ok_verified)]
        #[kani::stub(crate::vm::VM::prepare_globals_for_function, stub_prepare_globals)]
        #[kani::stub(crate::vm::VM::sync_current_function_globals, stub_sync_globals)]
        #[kani::stub(crate::vm::VM::print_value, stub_print_value)]
        #[kani::stub(crate::vm::VM::collect, stub_collect)]
        fn $name() {
            let (mut vm, _pre) = c04_state($pool, |_w: u32| true);
            vm.heap.verif_set_gc_threshold(kani::any());
            kani::assume(vm.heap.should_collect());
            let d: usize = kani::any();
            kani::assume(d >= 1 && d <= 64);
            vm.no_gc_depth = d;
            unsafe { VERIF_COLLECTED = false; }
            let mut out = None;
            let r = vm.$step::<{ $op }>(&mut out);
            assert!(unsafe { !VERIF_COLLECTED });
            assert!(vm.no_gc_depth == d);
            kani::cover!(true, "REQ step finished");
            kani::cover!(r.is_ok() && out.is_some(), "step continues");
            std::mem::forget(r);
            std::mem::forget(vm);
        }
    };
}
c13_step_no_collect!(c13_o3_add_concat, step_arithmetic, 5, POOL_SCALAR);
c13_step_no_collect!(c13_o3_alloc, step_memory, 28, POOL_MEM);
c13_step_no_collect!(c13_o3_arraynewi, step_arrays, 130, POOL_COLL);
c13_step_no_collect!(c13_o3_arraylit, step_arrays, 134, POOL_COLL);
c13_step_no_collect!(c13_o3_stringforloop, step_control_flow, 177, POOL_COLL);

/// MakeClosure through a *heap-pointer* function constant (the nested-marker path clones a Function and gives no verdict)
// NOT REGISTERED: no verdict in 1800 s
#[cfg(any())]
#[kani::proof]
#[kani::stub(std::hash::RandomState::new, stub_random_state)]
#[kani::stub(std::fmt::format, stub_format)]
#[kani::stub(crate::vm::VM::runtime_error, stub_runtime_error)]
#[kani::stub(crate::vm::GlobalLayout::empty, stub_layout_empty)]
#[kani::stub(crate::vm::VM::verify_function_value, stub_verify_value)]
#[kani::stub(crate::vm::VM::collect, stub_collect)]
fn c13_o3_makeclosure_ptr() {
    let mut vm = verif_vm();
    let abc: u32 = kani::any();
    kani::assume(abc <= 0x00FF_FFFF && ((abc >> 8) & 0xFF) == 0 && (abc & 0xFF) <= 1); // MakeClosure rA, k0, 0..1 upvalues
    let mut f = mk_function(vec![(35u32 << 24) | abc, 23u32 << 24], vec![Value::ptr(1)], 0, 3);
    f.upvalue_descriptors = vec![UpvalueDescriptor { is_local: true, index: 0 }];
    let fr = install_function(&mut vm, f);
    let mut g = mk_function(vec![23u32 << 24], vec![], 0, 2);
    g.upvalue_descriptors = vec![UpvalueDescriptor { is_local: kani::any(), index: kani::any() }];
    let gr = install_function(&mut vm, g); // object 1: the function constant 0 points at
    let base: usize = kani::any();
    kani::assume(base <= 2);
    push_function_frame(&mut vm, fr, base, 0);
    fill_registers_any(&mut vm);
    vm.heap.verif_set_gc_threshold(kani::any());
    kani::assume(vm.heap.should_collect());
    let d: usize = kani::any();
    kani::assume(d >= 1 && d <= 64);
    vm.no_gc_depth = d;
    unsafe { VERIF_COLLECTED = false; }
    let mut out = None;
    let r = vm.step_closures::<35>(&mut out);
    assert!(unsafe { !VERIF_COLLECTED });
    assert!(vm.no_gc_depth == d);
    kani::cover!(r.is_ok() && out.is_some(), "REQ closure created");
    let _ = gr;
    std::mem::forget(r);
    std::mem::forget(vm);
}
