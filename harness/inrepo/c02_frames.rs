// ---------------------------------------------------------------------------------------------
// C02 O1/O4/O5: VM-side semantics kernels that the differential operator obligations do not cover:
//   O5  CloseUpvals closes exactly the open upvalues of registers at or above base+a, preserving their value,
//       and leaves every other upvalue open (closures share captured variables by reference until then);
//       GetUpval / SetUpval read and write the live register (open) or the box (closed)
//   O1  Return / Return0 land the result in the caller's window at caller_base + return_dest and resume the caller
//   O4  ForLoopI / ForLoopIInc / WhileLoopLt: one iteration of the documented range semantics
// ---------------------------------------------------------------------------------------------

/// VM whose running frame (base symbolic <= 2) executes `word`; one upvalue object with the given location
fn upval_vm(word: u32, loc: UpvalueLocation) -> (VM, GcRef, usize) {
    let mut vm = verif_vm();
    let f = mk_function(vec![word, 23u32 << 24], vec![], 0, 3);
    let fr = install_function(&mut vm, f);
    let open = matches!(loc, UpvalueLocation::Open { .. });
    let up = vm.heap.alloc(GcObject::new(ObjectKind::Upvalue(AelysUpvalue { location: loc })));
    if open {
        vm.open_upvalues.push(up);
    }
    let base: usize = kani::any();
    kani::assume(base <= 2);
    push_function_frame(&mut vm, fr, base, 0);
    vm.current_upvalues = vec![up];
    let n = vm.frames.len() - 1;
    vm.frames[n].upvalues_ptr = vm.current_upvalues.as_ptr();
    vm.frames[n].upvalues_len = 1;
    fill_registers_any(&mut vm);
    (vm, up, base)
}

vm_harness! {
    fn c02_o5_closeupvals_exact() {
        let a: u8 = kani::any();
        let fb: usize = kani::any();
        let r: u8 = kani::any();
        kani::assume(fb <= 2 && (r as usize) <= 3); // the captured register lies inside the 6-register file
        let (mut vm, up, base) = upval_vm((38u32 << 24) | ((a as u32) << 16), UpvalueLocation::Open { frame_base: fb, register: r });
        let captured = vm.registers[fb + r as usize];
        let mut out = None;
        let res = vm.step_closures::<38>(&mut out);
        assert!(res.is_ok() && out.is_some());
        let should_close = fb + r as usize >= base + a as usize;
        match &vm.heap.get(up).unwrap().kind {
            ObjectKind::Upvalue(u) => match &u.location {
                UpvalueLocation::Closed(v) => {
                    assert!(should_close);
                    assert!(v.raw_bits() == captured.raw_bits()); // the box holds the variable's last value
                    assert!(vm.open_upvalues.is_empty());
                }
                UpvalueLocation::Open { frame_base, register } => {
                    // a variable below the closing point stays shared by reference
                    assert!(!should_close);
                    assert!(*frame_base == fb && *register == r && vm.open_upvalues.len() == 1);
                }
            },
            _ => assert!(false),
        }
        kani::cover!(should_close, "REQ closed");
        kani::cover!(!should_close && base > 0, "REQ a caller's variable stays open");
        std::mem::forget(res);
        std::mem::forget(vm);
    }
}

vm_harness! {
    fn c02_o5_getset_upval() {
        let set: bool = kani::any();
        let reg: u8 = kani::any();
        kani::assume(reg <= 2);
        let open: bool = kani::any();
        let fb: usize = kani::any();
        let r: u8 = kani::any();
        kani::assume(fb <= 2 && (r as usize) <= 3);
        let boxed = Value::from_raw(kani::any());
        let loc = if open { UpvalueLocation::Open { frame_base: fb, register: r } } else { UpvalueLocation::Closed(boxed) };
        // GetUpval r<reg>, u0   /   SetUpval u0, r<reg>
        let word = if set { (37u32 << 24) | (0 << 16) | ((reg as u32) << 8) } else { (36u32 << 24) | ((reg as u32) << 16) | (0 << 8) };
        let (mut vm, up, base) = upval_vm(word, loc);
        let src = vm.registers[base + reg as usize];
        let live = vm.registers[fb + r as usize];
        let mut out = None;
        let res = if set { vm.step_closures::<37>(&mut out) } else { vm.step_closures::<36>(&mut out) };
        assert!(res.is_ok() && out.is_some());
        if set {
            if open {
                assert!(vm.registers[fb + r as usize].raw_bits() == src.raw_bits()); // writes the shared variable itself
            } else {
                match &vm.heap.get(up).unwrap().kind {
                    ObjectKind::Upvalue(u) => match &u.location { UpvalueLocation::Closed(v) => assert!(v.raw_bits() == src.raw_bits()), _ => assert!(false) },
                    _ => assert!(false),
                }
            }
        } else {
            let want = if open { live } else { boxed };
            assert!(vm.registers[base + reg as usize].raw_bits() == want.raw_bits());
        }
        kani::cover!(set && open, "REQ write through an open upvalue");
        kani::cover!(!set && !open, "REQ read a closed upvalue");
        std::mem::forget(res);
        std::mem::forget(vm);
    }
}

/// O1: Return r<a> from a callee frame: the value lands in the caller's window and the caller resumes where it left
call_harness! {
    fn c02_o1_return_lands_in_caller() {
        let mut vm = verif_vm();
        let a: u8 = kani::any();
        kani::assume(a <= 2);
        let caller = install_function(&mut vm, mk_function(vec![23u32 << 24, 23u32 << 24, 23u32 << 24], vec![Value::int(1)], 0, 3));
        let callee = install_function(&mut vm, mk_function(vec![(22u32 << 24) | ((a as u32) << 16)], vec![], 0, 3));
        let cbase: usize = kani::any();
        let dest: u8 = kani::any();
        let resume: usize = kani::any();
        kani::assume(cbase <= 1 && dest <= 2 && resume <= 2);
        push_function_frame(&mut vm, caller, cbase, 0);
        vm.frames[0].ip = resume;
        push_function_frame(&mut vm, callee, cbase + 2, dest);
        fill_registers_any(&mut vm);
        let result = vm.registers[cbase + 2 + a as usize];
        let mut out = None;
        let r = vm.step_calls::<22>(&mut out);
        assert!(r.is_ok() && out.is_some());
        let o = out.unwrap();
        assert!(vm.frames.len() == 1 && o.ip == resume && o.base == cbase);
        assert!(vm.registers[cbase + dest as usize].raw_bits() == result.raw_bits());
        assert!(c04_locals_match_top(&vm, &o));
        kani::cover!(dest == 2 && cbase == 1, "REQ non-trivial destination");
        std::mem::forget(r);
        std::mem::forget(vm);
    }
}

/// O4: ForLoopI / ForLoopIInc / WhileLoopLt on ints: one iteration of the documented range semantics
vm_harness! {
    fn c02_o4_forloop_iteration() {
        let which: u8 = kani::any();
        kani::assume(which <= 2);
        let imm: u16 = kani::any();
        kani::assume(imm <= 1);
        let op: u32 = match which { 0 => 40, 1 => 41, _ => 48 };
        let mut vm = verif_vm();
        let f = mk_function(vec![(op << 24) | imm as u32, 23u32 << 24, 23u32 << 24], vec![], 0, 3);
        let fr = install_function(&mut vm, f);
        push_function_frame(&mut vm, fr, 0, 0);
        let (it, end, step): (i64, i64, i64) = (kani::any(), kani::any(), kani::any());
        kani::assume(it >= Value::INT_MIN && it <= Value::INT_MAX && end >= Value::INT_MIN && end <= Value::INT_MAX);
        kani::assume(step >= Value::INT_MIN && step <= Value::INT_MAX);
        vm.registers[0] = Value::int(it);
        vm.registers[1] = Value::int(end);
        vm.registers[2] = Value::int(step);
        let mut out = None;
        let r = match which { 0 => vm.step_control_flow::<40>(&mut out), 1 => vm.step_control_flow::<41>(&mut out), _ => vm.step_control_flow::<48>(&mut out) };
        assert!(r.is_ok() && out.is_some());
        let jumped = out.unwrap().ip == 1 + imm as usize;
        let stayed = out.unwrap().ip == 1;
        if which == 2 {
            // while iter < limit: registers untouched
            assert!(vm.registers[0].as_int() == Some(it));
            if it < end { assert!(jumped); } else { assert!(stayed); }
        } else {
            // the iterator advances by step (stored with 48-bit wrap-around); the loop continues while the *exact* next value
            // is inside the range, so a range ending at the top of the int domain terminates instead of wrapping around
            let exact = it + step; // 48-bit operands: no i64 overflow
            assert!(vm.registers[0].as_int() == Value::int(exact).as_int());
            let cont = if step > 0 { if which == 0 { exact < end } else { exact <= end } } else { if which == 0 { exact > end } else { exact >= end } };
            if cont { assert!(jumped); } else { assert!(stayed || imm == 0); }
        }
        kani::cover!(which == 1 && jumped && imm == 1, "REQ inclusive loop continues");
        kani::cover!(which == 0 && !jumped, "REQ exclusive loop ends");
        std::mem::forget(r);
        std::mem::forget(vm);
    }
}
