// ---------------------------------------------------------------------------------------------
// Support for in-crate harnesses (included into runtime::vm::dispatch::verif_shell).
// Direct-state VM constructor (VM::new registers ~250 natives into string-keyed maps), environment
// stubs, and the structural frame invariant.
// ---------------------------------------------------------------------------------------------
use crate::vm::{AelysFunction, AelysString, AelysUpvalue, Function, Heap, ManualHeap, NativeFunction, UpvalueLocation, VmConfig, VMCapabilities};
use std::collections::{HashMap, HashSet};
use std::sync::Arc;

/// size of the register file every VM harness starts from (E1 of the shell generator)
pub(crate) const VERIF_REGS: usize = 6;

// ---- stubs (each is environment, not subject; listed in the evidence per obligation) ----------
pub(crate) fn stub_random_state() -> std::hash::RandomState {
    // the real one reads getrandom(2); fixed keys
    unsafe { std::mem::transmute::<(u64, u64), std::hash::RandomState>((0x9E37_79B9_7F4A_7C15, 0x2545_F491_4F6C_DD1D)) }
}
pub(crate) fn stub_format(_args: std::fmt::Arguments<'_>) -> String {
    String::new()
}
pub(crate) fn stub_runtime_error(vm: &VM, kind: RuntimeErrorKind) -> RuntimeError {
    // keeps the error kind; drops the stack-trace walk
    RuntimeError::new(kind, Vec::new(), Arc::clone(&vm.source))
}
pub(crate) fn stub_layout_empty() -> Arc<crate::vm::GlobalLayout> {
    crate::vm::GlobalLayout::verif_empty()
}
pub(crate) fn stub_ok_verified(_vm: &mut VM, _f: GcRef) -> Result<(), RuntimeError> {
    Ok(())
}
pub(crate) fn stub_verify_value(_vm: &VM, _f: &Function) -> Result<(), RuntimeError> {
    // instantiating a nested function re-verifies it; the verifier has its own obligations (C04 V1) and costs ~700 s per shape
    Ok(())
}
pub(crate) fn stub_prepare_globals(_vm: &mut VM, _f: GcRef) -> usize {
    kani::assume(false);
    0
}
pub(crate) fn stub_sync_globals(_vm: &mut VM) {
    kani::assume(false);
}

/// name of the native the (stubbed) native call was asked to run, recorded for C05
pub(crate) static mut VERIF_NATIVE_CALLED: u8 = 0;
pub(crate) fn stub_call_cached_native(_vm: &mut VM, native: &NativeFunction, _args: &[Value]) -> Result<Value, RuntimeError> {
    unsafe {
        VERIF_NATIVE_CALLED = if native.name.len() == 1 { native.name.as_bytes()[0] } else { 255 };
    }
    if kani::any() {
        Ok(Value::from_raw(kani::any()))
    } else {
        Err(RuntimeError::new(RuntimeErrorKind::StackOverflow, Vec::new(), Arc::clone(&_vm.source)))
    }
}

/// set by the stub that replaces VM::collect in C13 obligations: "a collection ran"
pub(crate) static mut VERIF_COLLECTED: bool = false;
pub(crate) fn stub_collect(_vm: &mut VM) {
    // a real collection executes Heap::mark, which CBMC cannot finish even on a concrete 2-object heap (C03); C13 only needs
    // to know *whether* a collection is started
    unsafe { VERIF_COLLECTED = true; }
}

macro_rules! vm_harness {
    ($(#[$m:meta])* fn $name:ident() $body:block) => {
        #[kani::proof]
        #[kani::stub(std::hash::RandomState::new, stub_random_state)]
        #[kani::stub(std::fmt::format, stub_format)]
        #[kani::stub(crate::vm::VM::runtime_error, stub_runtime_error)]
        #[kani::stub(crate::vm::GlobalLayout::empty, stub_layout_empty)]
        $(#[$m])*
        fn $name() $body
    };
}

/// like vm_harness!, plus the stubs every call-family obligation needs (natives, verification, global-layout switching)
macro_rules! call_harness {
    ($(#[$m:meta])* fn $name:ident() $body:block) => {
        #[kani::proof]
        #[kani::stub(std::hash::RandomState::new, stub_random_state)]
        #[kani::stub(std::fmt::format, stub_format)]
        #[kani::stub(crate::vm::VM::runtime_error, stub_runtime_error)]
        #[kani::stub(crate::vm::GlobalLayout::empty, stub_layout_empty)]
        #[kani::stub(crate::vm::VM::call_cached_native, stub_call_cached_native)]
        #[kani::stub(crate::vm::VM::ensure_function_verified, stub_ok_verified)]
        #[kani::stub(crate::vm::VM::prepare_globals_for_function, stub_prepare_globals)]
        #[kani::stub(crate::vm::VM::sync_current_function_globals, stub_sync_globals)]
        $(#[$m])*
        fn $name() $body
    };
}

// ---- direct-state construction ---------------------------------------------------------------
pub(crate) fn verif_vm() -> VM {
    VM {
        heap: Heap::new(),
        config: VmConfig {
            max_heap_bytes: VmConfig::DEFAULT_MAX_HEAP_BYTES,
            capabilities: VMCapabilities::default(),
            allow_hot_reload: false,
            allowed_caps: HashSet::new(),
            denied_caps: HashSet::new(),
        },
        manual_heap: ManualHeap::new(),
        registers: vec![Value::null(); VERIF_REGS],
        frames: Vec::new(),
        globals: HashMap::new(),
        global_mutability: HashMap::new(),
        globals_by_index_cache: HashMap::new(),
        globals_by_index: Vec::new(),
        source: aelys_syntax::Source::new("", ""),
        no_gc_depth: 1, // collection off: per-opcode obligations never execute a collection (DESIGN §2 C03)
        open_upvalues: Vec::new(),
        current_upvalues: Vec::new(),
        call_site_cache: Vec::new(),
        resources: Vec::new(),
        native_modules: HashMap::new(),
        native_registry: HashMap::new(),
        current_global_mapping_id: 0,
        program_args: Vec::new(),
        script_path: None,
        repl_module_aliases: HashSet::new(),
        repl_known_globals: HashSet::new(),
        repl_known_native_globals: HashSet::new(),
        repl_symbol_origins: HashMap::new(),
    }
}

/// a Function object with the given words/constants, marked verified (the verifier has its own obligations)
pub(crate) fn mk_function(words: Vec<u32>, consts: Vec<Value>, arity: u8, nregs: u8) -> Function {
    let mut f = Function::new(None, arity);
    f.set_bytecode(words);
    f.constants = consts;
    f.num_registers = nregs;
    f
}

pub(crate) fn install_function(vm: &mut VM, f: Function) -> GcRef {
    let r = vm.heap.alloc_function(f);
    if let Some(obj) = vm.heap.get_mut(r) {
        if let ObjectKind::Function(af) = &mut obj.kind {
            af.verified = true;
        }
    }
    r
}

/// push a frame for a plain function object exactly as `VM::execute` / `Call` do (pointers into the object's buffers)
pub(crate) fn push_function_frame(vm: &mut VM, fref: GcRef, base: usize, return_dest: u8) {
    let (bp, bl, cp, cl, nr) = match &vm.heap.get(fref).unwrap().kind {
        ObjectKind::Function(f) => (
            f.function.bytecode.as_ptr(),
            f.function.bytecode.len(),
            f.function.constants.as_ptr(),
            f.function.constants.len(),
            f.function.num_registers,
        ),
        _ => unreachable!(),
    };
    vm.frames.push(CallFrame::with_return_dest(fref, base, return_dest, bp, bl, cp, cl, nr));
}

pub(crate) fn fill_registers_any(vm: &mut VM) {
    let mut i = 0;
    while i < VERIF_REGS {
        vm.registers[i] = Value::from_raw(kani::any());
        i += 1;
    }
}

/// structural coherence of the loop's cached locals with the top frame, and of the top frame with the
/// function object it denotes (what CallFrame::new/with_* callers establish)
pub(crate) fn frame_coherent(vm: &VM, out: &StepOut) -> bool {
    if vm.frames.is_empty() {
        return false;
    }
    let top = &vm.frames[vm.frames.len() - 1];
    let ok_locals = out.current_frame_idx == vm.frames.len() - 1
        && out.base == top.base
        && out.func_ref == top.function
        && out.bytecode_ptr == top.bytecode_ptr
        && out.bytecode_len == top.bytecode_len
        && out.constants_ptr == top.constants_ptr
        && out.constants_len == top.constants_len
        && out.upvalues_ptr == top.upvalues_ptr
        && out.upvalues_len == top.upvalues_len;
    let ok_obj = match vm.heap.get(top.function) {
        Some(obj) => match &obj.kind {
            ObjectKind::Function(f) => {
                top.bytecode_ptr == f.function.bytecode.as_ptr()
                    && top.bytecode_len == f.function.bytecode.len()
                    && top.constants_ptr == f.function.constants.as_ptr()
                    && top.constants_len == f.function.constants.len()
            }
            _ => false,
        },
        None => false,
    };
    ok_locals && ok_obj
}

pub(crate) fn stub_print_value(_vm: &VM, _v: Value) {}
