// ---------------------------------------------------------------------------------------------
// C20: string iteration, indexing and lengths agree on characters - decided at the opcode level on heap strings
// whose bytes are symbolic (assumed valid UTF-8), against an oracle that does not use the code under test:
// a UTF-8 scalar's length is determined by its first byte; characters = bytes that are not continuation bytes.
//   O1  StringForLoop: one step from any character-boundary offset (inductive step; base: the compiler initialises
//       the offset register to 0 - checked syntactically by the driver)
//   O2  StringLoadChar(s, i) for any Value i
//   O3  len (opcode 161 on a string) is the byte length; string.len / string.char_len natives (stdlib/string.rs
//       re-instantiated) are the byte length / the character count
// ---------------------------------------------------------------------------------------------

pub(crate) mod string_real {
    // the repository's stdlib/string.rs (generator edit E5: `//!` -> `//`, comments only); its natives are private fns,
    // reached through the wrappers below
    include!(concat!(env!("AELYS_VERIF_GEN"), "/string_real.rs"));
    pub(crate) fn verif_len(vm: &mut VM, a: &[Value]) -> Result<Value, RuntimeError> { native_len(vm, a) }
    pub(crate) fn verif_char_len(vm: &mut VM, a: &[Value]) -> Result<Value, RuntimeError> { native_char_len(vm, a) }
}

pub(crate) fn stub_intern(vm: &mut VM, s: &str) -> Result<GcRef, RuntimeError> {
    // identity of interned strings is not part of C20; the intern table is a HashMap keyed by a symbolic hash
    vm.alloc_string(s)
}

fn scalar_len(first: u8) -> usize {
    if first < 0x80 { 1 } else if first < 0xE0 { 2 } else if first < 0xF0 { 3 } else { 4 }
}
fn is_cont(b: u8) -> bool { (b & 0xC0) == 0x80 }

/// VM with heap [F = one instruction, S = string of L symbolic bytes (valid UTF-8)]
fn str_vm<const L: usize>(word: u32) -> (VM, GcRef, [u8; L]) {
    let mut vm = verif_vm();
    let f = mk_function(vec![word, 23u32 << 24, 23u32 << 24], vec![], 0, 3);
    let fr = install_function(&mut vm, f);
    let bytes: [u8; L] = kani::any();
    kani::assume(std::str::from_utf8(&bytes).is_ok());
    let s = vm.heap.alloc(GcObject::new(ObjectKind::String(AelysString::from_bytes(bytes.to_vec()))));
    push_function_frame(&mut vm, fr, 0, 0);
    (vm, s, bytes)
}

fn heap_str_bytes(vm: &VM, v: Value) -> Option<&[u8]> {
    let p = v.as_ptr()?;
    match &vm.heap.get(GcRef::new(p))?.kind {
        ObjectKind::String(s) => Some(s.as_bytes()),
        _ => None,
    }
}

macro_rules! c20_forloop_step {
    ($name:ident, $len:expr) => {
        #[kani::proof]
        #[kani::stub(std::hash::RandomState::new, stub_random_state)]
        #[kani::stub(std::fmt::format, stub_format)]
        #[kani::stub(crate::vm::VM::runtime_error, stub_runtime_error)]
        #[kani::stub(crate::vm::GlobalLayout::empty, stub_layout_empty)]
        #[kani::stub(crate::vm::VM::intern_string, stub_intern)]
        fn $name() {
            let imm: u16 = kani::any();
            kani::assume(imm <= 1);
            let (mut vm, s, bytes) = str_vm::<$len>((177u32 << 24) | imm as u32); // StringForLoop r0, +imm
            let o: usize = kani::any();
            kani::assume(o <= $len);
            kani::assume(o == $len || !is_cont(bytes[o])); // a character boundary
            let item0 = Value::from_raw(kani::any());
            vm.registers[0] = item0;
            vm.registers[1] = Value::int(o as i64);
            vm.registers[2] = Value::ptr(s.index());
            let mut out = None;
            let r = vm.step_control_flow::<177>(&mut out);
            assert!(r.is_ok() && out.is_some());
            let ip = out.unwrap().ip;
            if o < $len {
                let w = scalar_len(bytes[o]);
                assert!(ip == 1 + imm as usize); // jumped back into the loop body
                assert!(vm.registers[1].as_int() == Some((o + w) as i64)); // next offset: again a boundary
                assert!(o + w <= $len);
                // the item is a one-character heap string holding exactly the scalar that starts at o
                match heap_str_bytes(&vm, vm.registers[0]) {
                    Some(b) => {
                        assert!(b.len() == w);
                        let mut i = 0;
                        while i < w { assert!(b[i] == bytes[o + i]); i += 1; }
                    }
                    None => assert!(false, "item is not a heap string"),
                }
            } else {
                // end of string: fall through, registers untouched
                assert!(ip == 1);
                assert!(vm.registers[0].raw_bits() == item0.raw_bits() && vm.registers[1].as_int() == Some(o as i64));
            }
            kani::cover!(o < $len && scalar_len(bytes[o]) == $len, "REQ widest scalar for this length");
            kani::cover!(o == $len, "REQ end of string");
            kani::cover!(o > 0 && o < $len, "REQ interior boundary");
            std::mem::forget(r);
            std::mem::forget(vm);
        }
    };
}
c20_forloop_step!(c20_o1_forloop_step_len2, 2);
c20_forloop_step!(c20_o1_forloop_step_len3, 3);
c20_forloop_step!(c20_o1_forloop_step_len4, 4);

macro_rules! c20_loadchar {
    ($name:ident, $len:expr) => {
        #[kani::proof]
        #[kani::stub(std::hash::RandomState::new, stub_random_state)]
        #[kani::stub(std::fmt::format, stub_format)]
        #[kani::stub(crate::vm::VM::runtime_error, stub_runtime_error)]
        #[kani::stub(crate::vm::GlobalLayout::empty, stub_layout_empty)]
        #[kani::stub(crate::vm::VM::intern_string, stub_intern)]
        fn $name() {
            let (mut vm, s, bytes) = str_vm::<$len>((176u32 << 24) | (0 << 16) | (2 << 8) | 1); // StringLoadChar r0, r2, r1
            let iv = Value::from_raw(kani::any());
            vm.registers[1] = iv;
            vm.registers[2] = Value::ptr(s.index());
            // oracle: start offset and width of the i-th scalar, and the character count
            let mut count = 0usize;
            let mut start = [0usize; $len];
            let mut k = 0;
            while k < $len {
                if !is_cont(bytes[k]) { start[count] = k; count += 1; }
                k += 1;
            }
            let mut out = None;
            let r = vm.step_arrays::<176>(&mut out);
            let legal = match iv.as_int() { Some(i) => i >= 0 && (i as usize) < count, None => false };
            if legal {
                let i = iv.as_int().unwrap() as usize;
                let (o, w) = (start[i], scalar_len(bytes[start[i]]));
                assert!(r.is_ok() && out.is_some());
                match heap_str_bytes(&vm, vm.registers[0]) {
                    Some(b) => {
                        assert!(b.len() == w);
                        let mut j = 0;
                        while j < w { assert!(b[j] == bytes[o + j]); j += 1; }
                    }
                    None => assert!(false, "s[i] is not a heap string"),
                }
            } else {
                match &r { Err(e) => assert!(matches!(e.kind, RuntimeErrorKind::IndexOutOfBounds { .. })), Ok(_) => assert!(false) }
            }
            kani::cover!(legal && count == 1, "REQ one wide character");
            kani::cover!(legal && iv.as_int() == Some(($len - 1) as i64), "REQ last index of an all-ASCII string");
            kani::cover!(!legal && iv.as_int() == Some(count as i64), "REQ index == character count");
            std::mem::forget(r);
            std::mem::forget(vm);
        }
    };
}
c20_loadchar!(c20_o2_loadchar_len2, 2);
c20_loadchar!(c20_o2_loadchar_len3, 3);

macro_rules! c20_lengths {
    ($name:ident, $len:expr) => {
        vm_harness! {
            fn $name() {
                let (mut vm, s, bytes) = str_vm::<$len>((161u32 << 24) | (0 << 16) | (2 << 8)); // len r0, r2
                vm.registers[2] = Value::ptr(s.index());
                let mut chars = 0i64;
                let mut k = 0;
                while k < $len { if !is_cont(bytes[k]) { chars += 1; } k += 1; }
                let mut out = None;
                let r = vm.step_arrays::<161>(&mut out);
                assert!(r.is_ok() && out.is_some());
                // len() is the byte length = sum of the items' UTF-8 sizes (O1 yields items covering the string exactly)
                assert!(vm.registers[0].as_int() == Some($len as i64));
                kani::cover!(chars == 1 && $len > 1, "REQ one wide character");
                kani::cover!(chars == $len as i64, "REQ all ASCII");
                std::mem::forget(r);
                std::mem::forget(vm);
            }
        }
    };
}
c20_lengths!(c20_o3_lengths_len2, 2);
c20_lengths!(c20_o3_lengths_len3, 3);
c20_lengths!(c20_o3_lengths_len4, 4);

// NOT REGISTERED (measured): calling the re-instantiated string.char_len native on a heap string gave no verdict in 1800 s even
// without any opcode step - the string's length read back from the heap object is not constant-propagated, so CBMC unrolls
// core::str::count::do_count_chars (the >= 32-byte word-at-a-time path) in full. string.char_len is therefore outside the claim.
