// ---------------------------------------------------------------------------------------------
// C10: the configured heap limit is enforced before memory is taken.
// The *state* is symbolic instead of the sizes large: the VM is 0..=64 bytes from its limit, so every request is either
// refused or tiny.  For each allocation entry point: Ok => the new total stays within the limit and grew by exactly the
// charge; Err => OutOfMemory (or invalid size) and nothing was charged; no overflow panic for any argument.
// ---------------------------------------------------------------------------------------------

fn used(vm: &VM) -> u64 {
    vm.heap.bytes_allocated() as u64 + vm.manual_heap.bytes_allocated() as u64
}

/// VM holding two strings and one 2-slot manual buffer, `room` bytes from its limit (room symbolic, 0..=48)
fn near_limit_vm() -> (VM, u64) {
    let mut vm = verif_vm();
    vm.heap.alloc_string("ab");
    vm.heap.alloc_string("c");
    vm.manual_heap.alloc(2, 0).unwrap();
    // one freed slot, so that the next manual allocation recycles it (recycled slots must be charged like fresh ones)
    let dead = vm.manual_heap.alloc(1, 0).unwrap();
    vm.manual_heap.free(dead, 0).unwrap();
    let room: u64 = kani::any();
    kani::assume(room <= 48); // at most 6 manual slots can be granted: vec![null; n] stays inside unwind 7
    vm.config.max_heap_bytes = used(&vm) + room;
    (vm, room)
}

fn oom(r: &RuntimeError) -> bool {
    matches!(r.kind, RuntimeErrorKind::OutOfMemory { .. })
}

vm_harness! {
    fn c10_o1_alloc_string() {
        let (mut vm, room) = near_limit_vm();
        // a 2-byte string: either two ASCII characters or one 2-byte scalar (character count != byte count)
        let b: [u8; 2] = kani::any();
        kani::assume(std::str::from_utf8(&b).is_ok());
        let s = std::str::from_utf8(&b).unwrap();
        let before = used(&vm);
        let charge = Heap::estimate_string_size(2) as u64;
        let r = vm.alloc_string(s);
        match &r {
            Ok(_) => assert!(used(&vm) == before + charge && used(&vm) <= vm.config.max_heap_bytes && charge <= room),
            Err(e) => assert!(oom(e) && used(&vm) == before && charge > room),
        }
        kani::cover!(r.is_ok() && b[0] >= 0x80, "REQ multi-byte string admitted");
        kani::cover!(r.is_err(), "REQ refused");
        std::mem::forget(r);
        std::mem::forget(vm);
    }
}

/// same entry point on a *concrete* multi-byte string (byte size 2, one character) with the headroom symbolic: the admitted/refused
/// boundary must sit at the byte size (with symbolic bytes a char-counting implementation makes the query itself explode)
vm_harness! {
    fn c10_o1_alloc_string_multibyte() {
        let (mut vm, room) = near_limit_vm();
        let before = used(&vm);
        let charge = Heap::estimate_string_size(2) as u64;
        let r = vm.alloc_string("\u{e9}");
        match &r {
            Ok(_) => assert!(used(&vm) == before + charge && used(&vm) <= vm.config.max_heap_bytes && charge <= room),
            Err(e) => assert!(oom(e) && used(&vm) == before && charge > room),
        }
        kani::cover!(r.is_ok(), "REQ admitted");
        kani::cover!(r.is_err(), "REQ refused");
        std::mem::forget(r);
        std::mem::forget(vm);
    }
}

vm_harness! {
    fn c10_o1_manual_alloc() {
        let (mut vm, room) = near_limit_vm();
        let size: usize = kani::any();
        let before = used(&vm);
        let r = vm.manual_alloc(size, 0);
        match &r {
            Ok(_) => {
                assert!(size >= 1 && (size as u64) * 8 <= room);
                assert!(used(&vm) == before + 8 * size as u64 && used(&vm) <= vm.config.max_heap_bytes);
            }
            Err(e) => {
                assert!(used(&vm) == before);
                if size >= 1 { assert!(oom(e) && (size as u128) * 8 > room as u128); }
            }
        }
        kani::cover!(r.is_ok(), "REQ granted");
        kani::cover!(r.is_err() && size > (1usize << 61), "REQ absurd size refused");
        std::mem::forget(r);
        std::mem::forget(vm);
    }
}

vm_harness! {
    fn c10_o1_element_request() {
        let (vm, room) = near_limit_vm();
        let count: i64 = kani::any();
        let esz: usize = if kani::any() { 8 } else { 1 };
        let r = vm.check_element_request(count, esz);
        match &r {
            Ok(n) => assert!(count >= 0 && *n == count as usize && (count as u128) * (esz as u128) <= room as u128),
            Err(e) => {
                if count < 0 { assert!(matches!(e.kind, RuntimeErrorKind::InvalidAllocationSize { .. })); }
                else { assert!(oom(e) && (count as u128) * (esz as u128) > room as u128); }
            }
        }
        kani::cover!(r.is_ok() && count > 0, "REQ granted");
        kani::cover!(count == i64::MAX, "REQ absurd count");
        std::mem::forget(r);
        std::mem::forget(vm);
    }
}

vm_harness! {
    fn c10_o1_alloc_array() {
        let (mut vm, room) = near_limit_vm();
        let n: usize = kani::any();
        kani::assume(n <= 4);
        let arr = AelysArray::from_ints(match n { 0 => vec![], 1 => vec![0], 2 => vec![0; 2], 3 => vec![0; 3], _ => vec![0; 4] });
        let charge = arr.size_bytes() as u64;
        let before = used(&vm);
        let r = vm.alloc_array(arr);
        match &r {
            Ok(_) => assert!(used(&vm) == before + charge && used(&vm) <= vm.config.max_heap_bytes),
            Err(e) => assert!(oom(e) && used(&vm) == before && charge > room),
        }
        kani::cover!(r.is_ok() && n == 3, "REQ granted");
        kani::cover!(r.is_err(), "REQ refused");
        std::mem::forget(r);
        std::mem::forget(vm);
    }
}

/// O2: one VecPushI step on a full Vec (len == capacity) at the limit: the storage the Vec now owns is within the limit
vm_harness! {
    fn c10_o2_vecpush_growth_charged() {
        let mut vm = verif_vm();
        let word = (153u32 << 24) | (0 << 16) | (1 << 8); // VecPushI r0, r1
        let f = mk_function(vec![word, 23u32 << 24], vec![], 0, 3);
        let fr = install_function(&mut vm, f);
        let mut data = Vec::with_capacity(1);
        data.push(kani::any::<i64>());
        let v = vm.heap.alloc(GcObject::new(ObjectKind::Vec(AelysVec::from_ints(data))));
        let room: u64 = kani::any();
        kani::assume(room <= 4);
        vm.config.max_heap_bytes = used(&vm) + room; // less than one more element of headroom
        push_function_frame(&mut vm, fr, 0, 0);
        vm.registers[0] = Value::ptr(v.index());
        vm.registers[1] = Value::int(7);
        let mut out = None;
        let r = vm.step_arrays::<153>(&mut out);
        // what the program now holds: every live object at its current size
        let held = match &vm.heap.get(v).unwrap().kind { ObjectKind::Vec(x) => x.size_bytes() as u64, _ => 0 };
        let others = used(&vm) - (std::mem::size_of::<AelysVec>() as u64 + 8);
        assert!(r.is_err() || others + held <= vm.config.max_heap_bytes);
        kani::cover!(r.is_ok(), "REQ push went through");
        std::mem::forget(r);
        std::mem::forget(vm);
    }
}
