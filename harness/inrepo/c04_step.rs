// ---------------------------------------------------------------------------------------------
// C04 O2/O3: one step of every opcode from an arbitrary coherent frame state.
// The instruction word (all operand fields), the register contents, the window base and the position are
// symbolic; the heap holds one object of every kind the group's handlers dispatch on.  No verifier
// assumption is made: the verifier does not look at CallGlobal cache words and does not require jump
// targets to be instruction starts, so an accepted function can execute *any* word; the handlers must be
// safe on their own (check_reg!, constant-index and upvalue-index guards).
// CBMC's default checks (pointer validity, bounds, overflow, unwrap/panic, enum validity) are the property.
// ---------------------------------------------------------------------------------------------
use aelys_bytecode::UpvalueDescriptor;

pub(crate) const C04_WORDS: usize = 4;
pub(crate) const C04_HEADROOM: u64 = 40;

/// heap pool selector (concrete per harness)
pub(crate) const POOL_SCALAR: u8 = 0; // F, string
pub(crate) const POOL_CALL: u8 = 1; //   F, G, closure(G), native, upvalue; globals_by_index[0..2]; call_site_cache
pub(crate) const POOL_COLL: u8 = 2; //   F, string, arrays, vecs
pub(crate) const POOL_MEM: u8 = 3; //    F + manual heap with a live and a freed buffer
pub(crate) const POOL_CLOS: u8 = 4; //   F with a nested function and upvalue descriptors; frame runs as a closure

pub(crate) struct C04Pre {
    pub f: GcRef,
    pub ip: usize,
    pub base: usize,
}

fn any_words<W: Fn(u32) -> bool>(word_ok: &W) -> Vec<u32> {
    let mut w = Vec::with_capacity(C04_WORDS);
    let mut i = 0;
    while i < C04_WORDS {
        let x: u32 = kani::any();
        // stated bound for opcodes whose 16-bit immediate sizes a host container (global index, call-site slot)
        kani::assume(word_ok(x));
        w.push(x);
        i += 1;
    }
    w
}

/// a constant the verifier accepts: not a dangling pointer, not a marker beyond the nested table
fn any_valid_const(heap_objs: usize, nested: usize) -> Value {
    let v = Value::from_raw(kani::any());
    if let Some(p) = v.as_ptr() {
        kani::assume(p < heap_objs);
    }
    if let Some(m) = v.as_nested_fn_marker() {
        kani::assume(m < nested);
    }
    v
}

pub(crate) fn c04_state<W: Fn(u32) -> bool>(pool: u8, word_ok: W) -> (VM, C04Pre) {
    let mut vm = verif_vm();
    // object 0: the running function F: 4 symbolic words, 2 symbolic (valid) constants
    let nested = if pool == POOL_CLOS { 1 } else { 0 };
    let preobjs = 1; // constants may point at F itself (object 0) only: later objects do not exist yet when F is built
    let consts = vec![any_valid_const(preobjs, nested), any_valid_const(preobjs, nested)];
    let mut f = mk_function(any_words(&word_ok), consts, kani::any(), kani::any());
    kani::assume(f.num_registers <= 3 && f.arity <= 1); // bound: a larger window only lengthens registers.resize
    if pool == POOL_CLOS {
        // the nested function is concrete ([Return0], one int constant): instantiating it clones and re-verifies it
        let mut n = mk_function(vec![23u32 << 24], vec![Value::int(7)], 1, 2);
        n.upvalue_descriptors = vec![UpvalueDescriptor { is_local: kani::any(), index: kani::any() }];
        f.nested_functions = vec![n];
        f.upvalue_descriptors = vec![UpvalueDescriptor { is_local: true, index: 0 }];
    }
    let fr = install_function(&mut vm, f);
    match pool {
        POOL_SCALAR => {
            vm.heap.alloc_string("a");
        }
        POOL_CALL => {
            let g = mk_function(vec![kani::any(), kani::any()], vec![Value::from_raw(kani::any())], kani::any(), kani::any());
            kani::assume(g.num_registers <= 3); // bound: a larger callee window only lengthens registers.resize
            kani::assume(!g.constants[0].is_ptr() && g.constants[0].as_nested_fn_marker().is_none());
            let gr = install_function(&mut vm, g); // 1
            let up = vm.heap.alloc(GcObject::new(ObjectKind::Upvalue(AelysUpvalue { location: UpvalueLocation::Closed(Value::from_raw(kani::any())) }))); // 2
            let (bp, bl, cp, cl, ar, nr) = match &vm.heap.get(gr).unwrap().kind {
                ObjectKind::Function(af) => (af.function.bytecode.as_ptr(), af.function.bytecode.len(), af.function.constants.as_ptr(),
                                             af.function.constants.len(), af.function.arity, af.function.num_registers),
                _ => unreachable!(),
            };
            let clo = AelysClosure::with_cache(gr, vec![up], aelys_bytecode::object::ClosureCache {
                bytecode_ptr: bp, bytecode_len: bl, constants_ptr: cp, constants_len: cl, arity: ar, num_registers: nr });
            vm.heap.alloc(GcObject::new(ObjectKind::Closure(clo))); // 3
            vm.heap.alloc_native("n", kani::any()); // 4
            vm.globals_by_index = vec![Value::from_raw(kani::any()), Value::from_raw(kani::any())];
            vm.call_site_cache = vec![crate::vm::CallSiteCacheEntry::default(), crate::vm::CallSiteCacheEntry::default()];
        }
        POOL_COLL => {
            vm.heap.alloc_string("\u{e9}"); // 1: two bytes, one scalar
            vm.heap.alloc(GcObject::new(ObjectKind::Array(AelysArray::from_ints(vec![kani::any(), kani::any()])))); // 2
            vm.heap.alloc(GcObject::new(ObjectKind::Array(AelysArray::from_objects(vec![Value::from_raw(kani::any())])))); // 3
            vm.heap.alloc(GcObject::new(ObjectKind::Vec(AelysVec::from_ints(vec![kani::any()])))); // 4
            vm.heap.alloc(GcObject::new(ObjectKind::Vec(AelysVec::from_floats(vec![kani::any()])))); // 5
            vm.heap.alloc(GcObject::new(ObjectKind::Array(AelysArray::from_bools(vec![kani::any()])))); // 6
            vm.heap.alloc(GcObject::new(ObjectKind::Vec(AelysVec::from_objects(vec![Value::from_raw(kani::any())])))); // 7
        }
        POOL_MEM => {
            let h0 = vm.manual_heap.alloc(2, 0).unwrap();
            let h1 = vm.manual_heap.alloc(1, 0).unwrap();
            vm.manual_heap.free(h1, 0).unwrap();
            vm.manual_heap.store(h0, 0, Value::from_raw(kani::any())).unwrap();
        }
        _ => {}
    }
    // the VM is a few bytes from its limit, so every allocation the step makes is either refused or <= 5 slots
    // (keeps vec![x; n] fill loops inside the unwinding bound; an allocation made *before* the budget check
    // runs past the bound and is reported)
    vm.config.max_heap_bytes = (vm.heap.bytes_allocated() + vm.manual_heap.bytes_allocated()) as u64 + if pool == POOL_CLOS { 4096 } else { C04_HEADROOM };
    let base: usize = kani::any();
    kani::assume(base <= 2);
    push_function_frame(&mut vm, fr, base, kani::any());
    if pool == POOL_CALL {
        // the running frame has one (closed) upvalue holding an arbitrary value: callee of CallUpval/TailCallUpval
        let up = vm.heap.alloc(GcObject::new(ObjectKind::Upvalue(AelysUpvalue { location: UpvalueLocation::Closed(Value::from_raw(kani::any())) })));
        vm.current_upvalues = vec![up];
        let n = vm.frames.len() - 1;
        vm.frames[n].upvalues_ptr = vm.current_upvalues.as_ptr();
        vm.frames[n].upvalues_len = 1;
    }
    if pool == POOL_CLOS {
        // the frame runs as a closure with one upvalue (open or closed)
        let loc = if kani::any() {
            {
                let fb: usize = kani::any();
                kani::assume(fb <= 2); // open upvalues are created by capture_upvalue(base, reg) with base a frame base
                UpvalueLocation::Open { frame_base: fb, register: kani::any() }
            }
        } else {
            UpvalueLocation::Closed(Value::from_raw(kani::any()))
        };
        let open = matches!(loc, UpvalueLocation::Open { .. });
        let up = vm.heap.alloc(GcObject::new(ObjectKind::Upvalue(AelysUpvalue { location: loc })));
        if open {
            vm.open_upvalues.push(up);
        }
        vm.current_upvalues = vec![up];
        let n = vm.frames.len() - 1;
        vm.frames[n].upvalues_ptr = vm.current_upvalues.as_ptr();
        vm.frames[n].upvalues_len = 1;
    }
    fill_registers_any(&mut vm);
    let ip: usize = kani::any();
    kani::assume(ip < C04_WORDS);
    let n = vm.frames.len() - 1;
    vm.frames[n].ip = ip;
    (vm, C04Pre { f: fr, ip, base })
}

/// post-condition of one step: a value, a reported error, or a state whose cached locals are again coherent
pub(crate) fn c04_post(vm: &VM, out: &Option<StepOut>, r: &Result<Value, RuntimeError>) {
    if let Some(o) = out {
        assert!(r.is_ok());
        // the loop continues: its cached locals must describe the (new) top frame
        assert!(c04_locals_match_top(vm, o));
    }
    kani::cover!(true, "REQ post-state reached");
    kani::cover!(out.is_some(), "step continues");
    kani::cover!(r.is_err(), "step reports an error");
    kani::cover!(out.is_none() && r.is_ok(), "step returns a value");
}

pub(crate) fn c04_locals_match_top(vm: &VM, out: &StepOut) -> bool {
    if vm.frames.is_empty() {
        return false;
    }
    let top = &vm.frames[vm.frames.len() - 1];
    out.current_frame_idx == vm.frames.len() - 1
        && out.base == top.base
        && out.func_ref == top.function
        && out.bytecode_ptr == top.bytecode_ptr
        && out.bytecode_len == top.bytecode_len
        && out.constants_ptr == top.constants_ptr
        && out.constants_len == top.constants_len
        && out.upvalues_ptr == top.upvalues_ptr
        && out.upvalues_len == top.upvalues_len
}

macro_rules! c04_step {
    ($name:ident, $step:ident, $op:expr, $pool:expr, $wok:expr) => {
        #[kani::proof]
        #[kani::stub(std::hash::RandomState::new, stub_random_state)]
        #[kani::stub(std::fmt::format, stub_format)]
        #[kani::stub(crate::vm::VM::runtime_error, stub_runtime_error)]
        #[kani::stub(crate::vm::GlobalLayout::empty, stub_layout_empty)]
        #[kani::stub(crate::vm::VM::call_cached_native, stub_call_cached_native)]
        #[kani::stub(crate::vm::VM::ensure_function_verified, stub_ok_verified)]
        #[kani::stub(crate::vm::VM::prepare_globals_for_function, stub_prepare_globals)]
        #[kani::stub(crate::vm::VM::sync_current_function_globals, stub_sync_globals)]
        #[kani::stub(crate::vm::VM::print_value, stub_print_value)]
        #[kani::stub(crate::vm::VM::verify_function_value, stub_verify_value)]
        fn $name() {
            let (mut vm, _pre) = c04_state($pool, $wok);
            let mut out = None;
            let r = vm.$step::<{ $op }>(&mut out);
            c04_post(&vm, &out, &r);
            std::mem::forget(r);
            std::mem::forget(vm);
        }
    };
}
