// ---------------------------------------------------------------------------------------------
// C06 O1/O2 and C02 O3: differential single steps.
//   c06_pair!  : a typed / guarded opcode and its generic twin are run from *identical* states (same instruction operands,
//                same window base, same register contents, same heap) and must end the same way: same error kind, or
//                the same value in the destination register and the same next ip.
//   c02_ref!   : a generic operator step is compared with a definitional evaluator of the single operation written from
//                docs/language-spec.md (48-bit wrapping ints, truncating division, division by zero error, int/float
//                promotion, shift counts masked to 0..63, IEEE floats).
// ---------------------------------------------------------------------------------------------

pub(crate) const MODE_ANY: u8 = 0; //       operands: any Value (guarded opcodes)
pub(crate) const MODE_INTS: u8 = 1; //      operands: ints (what an ...II opcode is selected for)
pub(crate) const MODE_FLOATS: u8 = 2; //    operands: floats (what an ...FF opcode is selected for)
pub(crate) const MODE_PROMOTED: u8 = 3; //  guarded float opcode vs generic on float-promoted operands (any Value)
pub(crate) const MODE_NOFLOAT: u8 = 4; //   any Value except floats (float * / % kernels do not finish in CBMC)
pub(crate) const MODE_NONAN: u8 = 5; //     any Value except NaN (generic Eq/Ne compare identical bits as equal; typed forms follow IEEE)
pub(crate) const MODE_PROMOTED_NONAN: u8 = 6;
pub(crate) const MODE_INTS_SMALL_RIGHT: u8 = 8; // ints, right operand within -16..=16 (two full-width symbolic multipliers/dividers do not finish)
pub(crate) const MODE_PROMOTED_SMALL_RIGHT: u8 = 7; // like MODE_PROMOTED, right operand an int in -8..=8 or one of 0.5, 2.0, -1.5, inf

pub(crate) struct PairIn {
    pub abc: u32,
    pub base: usize,
    pub regs: [u64; VERIF_REGS],
}

/// a bit pattern some Value constructor produces (int/float/bool/null/ptr/nested_fn_marker): inside the quiet-NaN space
/// the sign bit is clear and the payload is the constructor's; all other NaNs are the one canonical NaN
pub(crate) fn is_canonical(bits: u64) -> bool {
    let v = Value::from_raw(bits);
    if let Some(i) = v.as_int() {
        Value::int(i).raw_bits() == bits
    } else if let Some(b) = v.as_bool() {
        Value::bool(b).raw_bits() == bits
    } else if v.is_null() {
        Value::null().raw_bits() == bits
    } else if let Some(p) = v.as_ptr() {
        Value::ptr(p).raw_bits() == bits
    } else if let Some(m) = v.as_nested_fn_marker() {
        Value::nested_fn_marker(m).raw_bits() == bits
    } else {
        match v.as_float() {
            Some(f) => Value::float(f).raw_bits() == bits,
            None => false,
        }
    }
}

pub(crate) fn pair_input(mode: u8) -> PairIn {
    let abc: u32 = kani::any();
    kani::assume(abc <= 0x00FF_FFFF);
    let base: usize = kani::any();
    kani::assume(base <= 2);
    let regs: [u64; VERIF_REGS] = kani::any();
    {
        // registers hold values some constructor produced (e.g. no int with the sign bit of the NaN box set)
        let mut i = 0;
        while i < VERIF_REGS {
            kani::assume(is_canonical(regs[i]));
            i += 1;
        }
    }
    let b = base + ((abc >> 8) & 0xFF) as usize;
    let c = base + (abc & 0xFF) as usize;
    if mode == MODE_INTS_SMALL_RIGHT {
        kani::assume(b < VERIF_REGS && c < VERIF_REGS);
        let (vb, vc) = (Value::from_raw(regs[b]), Value::from_raw(regs[c]));
        kani::assume(vb.is_int() && matches!(vc.as_int(), Some(i) if i >= -16 && i <= 16));
    }
    if mode == MODE_INTS || mode == MODE_FLOATS {
        // the operand registers the instruction names hold the type the opcode is named for
        kani::assume(b < VERIF_REGS && c < VERIF_REGS);
        let (vb, vc) = (Value::from_raw(regs[b]), Value::from_raw(regs[c]));
        if mode == MODE_INTS {
            kani::assume(vb.is_int() && vc.is_int());
        } else {
            kani::assume(vb.is_float() && vc.is_float());
        }
    }
    if mode == MODE_PROMOTED_SMALL_RIGHT {
        // two full-width symbolic float multipliers/dividers in one query do not finish; with a small right operand they do
        if c < VERIF_REGS {
            let v = Value::from_raw(regs[c]);
            let small_int = matches!(v.as_int(), Some(i) if i >= -8 && i <= 8);
            let few_floats = matches!(v.as_float(), Some(f) if f == 0.5 || f == 2.0 || f == -1.5 || f == f64::INFINITY);
            kani::assume(small_int || few_floats || (!v.is_int() && !v.is_float()));
        }
    }
    if mode == MODE_NOFLOAT || mode == MODE_NONAN || mode == MODE_PROMOTED_NONAN {
        let mut i = 0;
        while i < VERIF_REGS {
            let v = Value::from_raw(regs[i]);
            if mode == MODE_NOFLOAT {
                kani::assume(!v.is_float());
            } else if let Some(f) = v.as_float() {
                kani::assume(!f.is_nan());
            }
            i += 1;
        }
    }
    PairIn { abc, base, regs }
}

fn promote(v: Value) -> Value {
    match v.as_int() {
        Some(i) => Value::float(i as f64),
        None => v,
    }
}

/// a VM whose running function is the single instruction `op|abc`, one heap string, the given registers
pub(crate) fn pair_vm(op: u8, inp: &PairIn, promote_operands: bool) -> VM {
    let mut vm = verif_vm();
    let f = mk_function(vec![((op as u32) << 24) | inp.abc, 23u32 << 24], vec![], 0, 3);
    let fr = install_function(&mut vm, f);
    vm.heap.alloc_string("a");
    push_function_frame(&mut vm, fr, inp.base, 0);
    let mut i = 0;
    while i < VERIF_REGS {
        vm.registers[i] = Value::from_raw(inp.regs[i]);
        i += 1;
    }
    if promote_operands {
        let b = inp.base + ((inp.abc >> 8) & 0xFF) as usize;
        let c = inp.base + (inp.abc & 0xFF) as usize;
        if b < VERIF_REGS {
            vm.registers[b] = promote(vm.registers[b]);
        }
        if c < VERIF_REGS {
            vm.registers[c] = promote(vm.registers[c]);
        }
    }
    vm
}

pub(crate) fn same_outcome(inp: &PairIn, vm1: &VM, o1: &Option<StepOut>, r1: &Result<Value, RuntimeError>,
                           vm2: &VM, o2: &Option<StepOut>, r2: &Result<Value, RuntimeError>) {
    match (r1, r2) {
        (Err(e1), Err(e2)) => {
            assert!(std::mem::discriminant(&e1.kind) == std::mem::discriminant(&e2.kind));
        }
        (Ok(_), Ok(_)) => {
            assert!(o1.is_some() == o2.is_some());
            if let (Some(a), Some(b)) = (o1, o2) {
                assert!(a.ip == b.ip);
                let d = inp.base + ((inp.abc >> 16) & 0xFF) as usize;
                // the step continued, so the destination register index passed check_reg!
                assert!(d < VERIF_REGS);
                let (x, y) = (vm1.registers[d], vm2.registers[d]);
                // same kind and same bits; a freshly allocated string has the same index in both heaps
                assert!(x.raw_bits() == y.raw_bits());
            }
        }
        _ => assert!(false, "one step reports an error, its twin does not"),
    }
    kani::cover!(true, "REQ both steps finished");
    kani::cover!(r1.is_ok() && o1.is_some(), "REQ value produced");
}

macro_rules! c06_pair {
    ($name:ident, $step_t:ident, $op_t:expr, $step_g:ident, $op_g:expr, $mode:expr) => {
        vm_harness! {
            fn $name() {
                let inp = pair_input($mode);
                let mut vm1 = pair_vm($op_t, &inp, false);
                let mut vm2 = pair_vm($op_g, &inp, $mode == MODE_PROMOTED || $mode == MODE_PROMOTED_NONAN || $mode == MODE_PROMOTED_SMALL_RIGHT);
                let (mut o1, mut o2) = (None, None);
                let r1 = vm1.$step_t::<{ $op_t }>(&mut o1);
                let r2 = vm2.$step_g::<{ $op_g }>(&mut o2);
                same_outcome(&inp, &vm1, &o1, &r1, &vm2, &o2, &r2);
                kani::cover!(r1.is_err(), "error outcome");
                std::mem::forget(r1);
                std::mem::forget(r2);
                std::mem::forget(vm1);
                std::mem::forget(vm2);
            }
        }
    };
}

// ------------------------------------------------------------------ C02 O3: reference evaluator
#[derive(PartialEq, Eq, Clone, Copy)]
pub(crate) enum RefOut {
    Val(u64),
    DivZero,
    TypeErr,
}

fn ref_num(v: Value) -> Option<f64> {
    if let Some(i) = v.as_int() { Some(i as f64) } else { v.as_float() }
}

/// definitional single-operation semantics (docs/language-spec.md): op is the *generic* opcode number
pub(crate) fn ref_binop(op: u8, l: Value, r: Value) -> RefOut {
    let ints = match (l.as_int(), r.as_int()) { (Some(a), Some(b)) => Some((a, b)), _ => None };
    let nums = match (ref_num(l), ref_num(r)) { (Some(a), Some(b)) => Some((a, b)), _ => None };
    match op {
        5 | 6 | 7 => {
            if let Some((a, b)) = ints {
                let x = match op { 5 => a.wrapping_add(b), 6 => a.wrapping_sub(b), _ => a.wrapping_mul(b) };
                RefOut::Val(Value::int(x).raw_bits()) // wraps at 48 bits
            } else if let Some((a, b)) = nums {
                let x = match op { 5 => a + b, 6 => a - b, _ => a * b };
                RefOut::Val(Value::float(x).raw_bits())
            } else { RefOut::TypeErr }
        }
        8 | 9 => {
            if let Some((a, b)) = ints {
                if b == 0 { RefOut::DivZero } else {
                    // truncating division; operands are 48-bit so no i64 overflow
                    RefOut::Val(Value::int(if op == 8 { a / b } else { a % b }).raw_bits())
                }
            } else if let Some((a, b)) = nums {
                RefOut::Val(Value::float(if op == 8 { a / b } else { a % b }).raw_bits())
            } else { RefOut::TypeErr }
        }
        13 | 14 | 15 | 16 => {
            if let Some((a, b)) = ints {
                RefOut::Val(Value::bool(match op { 13 => a < b, 14 => a <= b, 15 => a > b, _ => a >= b }).raw_bits())
            } else if let Some((a, b)) = nums {
                RefOut::Val(Value::bool(match op { 13 => a < b, 14 => a <= b, 15 => a > b, _ => a >= b }).raw_bits())
            } else { RefOut::TypeErr }
        }
        105 | 106 | 107 | 108 | 109 => {
            if let Some((a, b)) = ints {
                let x = match op { 105 => a << (b & 63), 106 => a >> (b & 63), 107 => a & b, 108 => a | b, _ => a ^ b };
                RefOut::Val(Value::int(x).raw_bits())
            } else { RefOut::TypeErr }
        }
        _ => RefOut::TypeErr,
    }
}

macro_rules! c02_ref {
    ($name:ident, $step:ident, $op:expr, $small:expr) => {
        vm_harness! {
            fn $name() {
                let inp = pair_input(MODE_ANY);
                let b = inp.base + ((inp.abc >> 8) & 0xFF) as usize;
                let c = inp.base + (inp.abc & 0xFF) as usize;
                let d = inp.base + ((inp.abc >> 16) & 0xFF) as usize;
                kani::assume(b < VERIF_REGS && c < VERIF_REGS && d < VERIF_REGS);
                let (l, r) = (Value::from_raw(inp.regs[b]), Value::from_raw(inp.regs[c]));
                // numbers, bools and null only: string concatenation/comparison is C20's subject
                kani::assume(!l.is_ptr() && !r.is_ptr() && l.as_nested_fn_marker().is_none() && r.as_nested_fn_marker().is_none());
                if $small {
                    // 64-bit symbolic x symbolic multiply/divide does not terminate in SAT: one operand is <= 12 bits (either side)
                    let small = |v: Value| match v.as_int() { Some(i) => i >= -2048 && i <= 2047, None => true };
                    kani::assume(small(l) || small(r));
                    // float mul/div/rem are outside the claim (CBMC's float multiplier/divider): ints only
                    kani::assume(!l.is_float() && !r.is_float());
                }
                let mut vm = pair_vm($op, &inp, false);
                let mut o = None;
                let res = vm.$step::<{ $op }>(&mut o);
                let want = ref_binop($op, l, r);
                match (&res, want) {
                    (Err(e), RefOut::DivZero) => assert!(matches!(e.kind, RuntimeErrorKind::DivisionByZero)),
                    (Err(e), RefOut::TypeErr) => assert!(matches!(e.kind, RuntimeErrorKind::TypeError { .. })),
                    (Ok(_), RefOut::Val(bits)) => {
                        assert!(o.is_some());
                        assert!(vm.registers[d].raw_bits() == bits);
                    }
                    _ => assert!(false, "outcome class differs from the reference"),
                }
                kani::cover!(true, "REQ step finished");
                kani::cover!(matches!(want, RefOut::Val(_)) && l.is_int() && r.is_int(), "REQ int result");
                kani::cover!(matches!(want, RefOut::TypeErr), "REQ type error case");
                std::mem::forget(res);
                std::mem::forget(vm);
            }
        }
    };
}
