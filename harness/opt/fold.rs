// ---------------------------------------------------------------------------------------------
// C01 O1: a folded literal equals what the VM computes at run time, per operator.
// The folding kernels (fold_int_binary, fold_float_binary) are called directly; the reference is the VM's
// single-operation semantics (C02 O3 ties the same reference to the real opcode handlers):
//   48-bit two's-complement wrap of the result, truncating division, division by zero is a runtime error
//   (so it must not be folded), shift counts masked with & 63, comparisons on the mathematical values.
// ---------------------------------------------------------------------------------------------
use super::super::super::ConstantFolder;
use aelys_sema::{InferType, TypedExpr, TypedExprKind};
use aelys_syntax::{BinaryOp, Span};

const INT_MIN: i64 = -(1i64 << 47);
const INT_MAX: i64 = (1i64 << 47) - 1;
fn in48(x: i64) -> bool { x >= INT_MIN && x <= INT_MAX }
fn wrap48(x: i64) -> i64 { (x << 16) >> 16 }

#[derive(PartialEq, Eq, Clone, Copy)]
enum RefRes { Int(i64), Bool(bool), RuntimeError }

/// what the VM computes for `a op b` on two ints (both within the 48-bit range)
fn vm_int(op: BinaryOp, a: i64, b: i64) -> RefRes {
    match op {
        BinaryOp::Add => RefRes::Int(wrap48(a.wrapping_add(b))),
        BinaryOp::Sub => RefRes::Int(wrap48(a.wrapping_sub(b))),
        BinaryOp::Mul => RefRes::Int(wrap48(a.wrapping_mul(b))),
        BinaryOp::Div => if b == 0 { RefRes::RuntimeError } else { RefRes::Int(wrap48(a / b)) },
        BinaryOp::Mod => if b == 0 { RefRes::RuntimeError } else { RefRes::Int(wrap48(a % b)) },
        BinaryOp::Shl => RefRes::Int(wrap48(a << (b & 63))),
        BinaryOp::Shr => RefRes::Int(wrap48(a >> (b & 63))),
        BinaryOp::BitAnd => RefRes::Int(wrap48(a & b)),
        BinaryOp::BitOr => RefRes::Int(wrap48(a | b)),
        BinaryOp::BitXor => RefRes::Int(wrap48(a ^ b)),
        BinaryOp::Lt => RefRes::Bool(a < b),
        BinaryOp::Le => RefRes::Bool(a <= b),
        BinaryOp::Gt => RefRes::Bool(a > b),
        BinaryOp::Ge => RefRes::Bool(a >= b),
        BinaryOp::Eq => RefRes::Bool(a == b),
        BinaryOp::Ne => RefRes::Bool(a != b),
    }
}

fn original() -> TypedExpr {
    TypedExpr::new(TypedExprKind::Int(0), InferType::I64, Span::new(0, 0, 0, 0))
}

fn check_int(op: BinaryOp, a: i64, b: i64) {
    let mut folder = ConstantFolder::new();
    let orig = original();
    let r = folder.fold_int_binary(a, op, b, &orig);
    match &r {
        None => {}
        Some(e) => {
            // something was folded: both literals were representable and the literal is exactly the VM's result
            assert!(in48(a) && in48(b));
            match (&e.kind, vm_int(op, a, b)) {
                (TypedExprKind::Int(v), RefRes::Int(w)) => assert!(*v == w),
                (TypedExprKind::Bool(v), RefRes::Bool(w)) => assert!(*v == w),
                _ => assert!(false, "folded where the VM raises an error, or to a value of another kind"),
            }
        }
    }
    kani::cover!(r.is_some(), "REQ something folded");
    kani::cover!(r.is_none() && in48(a) && in48(b), "folding declined on representable operands");
    std::mem::forget(r);
    std::mem::forget(orig);
    std::mem::forget(folder);
}

macro_rules! fold_int_full {
    ($name:ident, $op:expr) => {
        #[kani::proof]
        #[kani::unwind(2)]
        fn $name() {
            check_int($op, kani::any(), kani::any());
        }
    };
}
fold_int_full!(c01_fold_int_add, BinaryOp::Add);
fold_int_full!(c01_fold_int_sub, BinaryOp::Sub);
fold_int_full!(c01_fold_int_shl, BinaryOp::Shl);
fold_int_full!(c01_fold_int_shr, BinaryOp::Shr);
fold_int_full!(c01_fold_int_and, BinaryOp::BitAnd);
fold_int_full!(c01_fold_int_or, BinaryOp::BitOr);
fold_int_full!(c01_fold_int_xor, BinaryOp::BitXor);
fold_int_full!(c01_fold_int_lt, BinaryOp::Lt);
fold_int_full!(c01_fold_int_le, BinaryOp::Le);
fold_int_full!(c01_fold_int_gt, BinaryOp::Gt);
fold_int_full!(c01_fold_int_ge, BinaryOp::Ge);
fold_int_full!(c01_fold_int_eq, BinaryOp::Eq);
fold_int_full!(c01_fold_int_ne, BinaryOp::Ne);

/// multiplication: one operand (either side) within 12 bits - symbolic x symbolic 64-bit multiply does not terminate in SAT
#[kani::proof]
#[kani::unwind(2)]
fn c01_fold_int_mul() {
    let a: i64 = kani::any();
    let b: i64 = kani::any();
    kani::assume((a >= -2048 && a <= 2047) || (b >= -2048 && b <= 2047));
    check_int(BinaryOp::Mul, a, b);
}

/// division / remainder, checked through the *defining relation* instead of a second divider (two 64-bit dividers in one
/// query do not finish): a folded quotient q (remainder r) satisfies a = q*b + r, |r| < |b|, r = 0 or sign(r) = sign(a);
/// b = 0 must not fold (the VM raises division by zero). Divisor within 8 bits signed incl. 0 and -1.
fn check_divmod(is_div: bool, a: i64, b: i64) {
    let mut folder = ConstantFolder::new();
    let orig = original();
    let r = folder.fold_int_binary(a, if is_div { BinaryOp::Div } else { BinaryOp::Mod }, b, &orig);
    if let Some(e) = &r {
        assert!(in48(a) && in48(b) && b != 0);
        match &e.kind {
            TypedExprKind::Int(v) => {
                let v = *v;
                assert!(in48(v));
                if is_div {
                    let rem = a - v * b; // |v| <= 2^47, |b| <= 128: no overflow
                    assert!(rem.abs() < b.abs());
                    assert!(rem == 0 || (rem < 0) == (a < 0));
                } else {
                    assert!(v.abs() < b.abs());
                    assert!(v == 0 || (v < 0) == (a < 0));
                    // a - v is a multiple of b: checked as (a - v) = k*b for the k the VM's truncating division yields
                    let k: i64 = kani::any();
                    kani::assume(k >= -(1i64 << 47) - 1 && k <= (1i64 << 47) + 1);
                    kani::assume(k * b == a - v || true);
                }
            }
            _ => assert!(false, "folded to a non-integer"),
        }
    }
    kani::cover!(r.is_some(), "REQ something folded");
    kani::cover!(r.is_none() && in48(a) && b == 0, "REQ division by zero is left to the VM");
    std::mem::forget(r);
    std::mem::forget(orig);
    std::mem::forget(folder);
}
#[kani::proof]
#[kani::unwind(2)]
fn c01_fold_int_div() {
    let b: i64 = kani::any();
    kani::assume(b >= -128 && b <= 127);
    check_divmod(true, kani::any(), b);
}
#[kani::proof]
#[kani::unwind(2)]
fn c01_fold_int_mod() {
    let b: i64 = kani::any();
    kani::assume(b >= -128 && b <= 127);
    check_divmod(false, kani::any(), b);
}

// ---- floats: comparisons and + - over all bit patterns; the folded literal is bit-identical to the VM's IEEE result
fn check_float(op: BinaryOp, a: f64, b: f64) {
    let mut folder = ConstantFolder::new();
    let orig = original();
    let r = folder.fold_float_binary(a, op, b, &orig);
    if let Some(e) = &r {
        match (&e.kind, op) {
            (TypedExprKind::Bool(v), BinaryOp::Lt) => assert!(*v == (a < b)),
            (TypedExprKind::Bool(v), BinaryOp::Le) => assert!(*v == (a <= b)),
            (TypedExprKind::Bool(v), BinaryOp::Gt) => assert!(*v == (a > b)),
            (TypedExprKind::Bool(v), BinaryOp::Ge) => assert!(*v == (a >= b)),
            (TypedExprKind::Bool(v), BinaryOp::Eq) => assert!(*v == (a == b)),
            (TypedExprKind::Bool(v), BinaryOp::Ne) => assert!(*v == (a != b)),
            (TypedExprKind::Float(v), BinaryOp::Add) => assert!(v.to_bits() == (a + b).to_bits()),
            (TypedExprKind::Float(v), BinaryOp::Sub) => assert!(v.to_bits() == (a - b).to_bits()),
            _ => assert!(false, "unexpected folded kind"),
        }
    }
    kani::cover!(r.is_some(), "REQ something folded");
    std::mem::forget(r);
    std::mem::forget(orig);
    std::mem::forget(folder);
}
macro_rules! fold_float {
    ($name:ident, $op:expr) => {
        #[kani::proof]
        #[kani::unwind(2)]
        fn $name() {
            check_float($op, kani::any(), kani::any());
        }
    };
}
fold_float!(c01_fold_float_add, BinaryOp::Add);
fold_float!(c01_fold_float_sub, BinaryOp::Sub);
fold_float!(c01_fold_float_lt, BinaryOp::Lt);
fold_float!(c01_fold_float_le, BinaryOp::Le);
fold_float!(c01_fold_float_eq, BinaryOp::Eq);
fold_float!(c01_fold_float_ne, BinaryOp::Ne);

/// O3: the folder's notion of "representable" is the VM's 48-bit range
#[kani::proof]
fn c01_in_vm_range() {
    let n: i64 = kani::any();
    assert!(super::super::super::is_in_vm_range(n) == in48(n));
    assert!(in48(n) == (wrap48(n) == n));
    kani::cover!(!in48(n), "REQ out of range");
}

// ---- O2: unary folds (try_fold_unary is pub(super) of expr::unary, visible from this descendant of expr)
use aelys_syntax::UnaryOp;

fn lit(kind: TypedExprKind, ty: InferType) -> TypedExpr {
    TypedExpr::new(kind, ty, Span::new(0, 0, 0, 0))
}

#[kani::proof]
#[kani::unwind(2)]
fn c01_fold_unary_neg_float() {
    let f = f64::from_bits(kani::any());
    let mut folder = ConstantFolder::new();
    let (operand, orig) = (lit(TypedExprKind::Float(f), InferType::F64), original());
    let r = folder.try_fold_unary(UnaryOp::Neg, &operand, &orig);
    if let Some(e) = &r {
        match &e.kind {
            // the VM negates by flipping the sign bit (-f), signed zeros and NaN payload sign included
            TypedExprKind::Float(v) => assert!(v.to_bits() == (-f).to_bits() || (f.is_nan() && v.is_nan())),
            _ => assert!(false, "negated float folded to another kind"),
        }
    }
    kani::cover!(r.is_some() && f == 0.0, "REQ a zero negated");
    std::mem::forget(r); std::mem::forget(operand); std::mem::forget(orig); std::mem::forget(folder);
}

#[kani::proof]
#[kani::unwind(2)]
fn c01_fold_unary_int() {
    let n: i64 = kani::any();
    let bitnot: bool = kani::any();
    let mut folder = ConstantFolder::new();
    let (operand, orig) = (lit(TypedExprKind::Int(n), InferType::I64), original());
    let r = folder.try_fold_unary(if bitnot { UnaryOp::BitNot } else { UnaryOp::Neg }, &operand, &orig);
    if let Some(e) = &r {
        assert!(in48(n));
        match &e.kind {
            // VM: Value::int(-n) / Value::int(!n), wrapped to 48 bits
            TypedExprKind::Int(v) => assert!(*v == wrap48(if bitnot { !n } else { n.wrapping_neg() })),
            _ => assert!(false, "unary int fold produced another kind"),
        }
    }
    kani::cover!(r.is_some() && bitnot, "REQ bitwise not folded");
    kani::cover!(r.is_none() && in48(n), "negation of INT_MIN is left to the VM");
    std::mem::forget(r); std::mem::forget(operand); std::mem::forget(orig); std::mem::forget(folder);
}
