"""Registry of obligations: one entry = one Kani harness = one solver query family.
Fields: id, crate (leaf|runtime|opt), file, harness, tier, timeout (s), args, what, functions, bounds, stubs, assumes."""

OBLIGATIONS = {}
SYNTACTIC = {}


def ob(prop, oid, crate, file, harness, tier="quick", timeout=600, **kw):
    d = dict(id=oid, crate=crate, file=file, harness=harness, tier=tier, timeout=timeout)
    d.update(kw)
    OBLIGATIONS.setdefault(prop, []).append(d)


VALUE_FNS = ["aelys_bytecode::Value::{int,int_checked,float,bool,null,ptr,nested_fn_marker}",
             "Value::{is_int,is_float,is_bool,is_null,is_ptr}",
             "Value::{as_int,as_float,as_bool,as_ptr,as_nested_fn_marker,as_int_unchecked,as_float_unchecked,raw_bits,from_raw}",
             "<Value as PartialEq>::eq", "Value::{is_truthy,type_name}"]

# ---------------------------------------------------------------- C12
ob("C12", "O1", "leaf", "c12_value.rs", "c12_o1_partition", timeout=300,
   what="every u64 bit pattern is exactly one of int/float/bool/null/ptr/nested-fn-marker and accessors agree with predicates",
   functions=VALUE_FNS, bounds="none: all 2^64 bit patterns")
ob("C12", "O2", "leaf", "c12_value.rs", "c12_o2_int", timeout=300,
   what="int(n) wraps by two's complement at 48 bits; int_checked(n) is Ok iff n in [-2^47, 2^47-1] and then reads back n",
   functions=VALUE_FNS, bounds="none: all i64")
ob("C12", "O3", "leaf", "c12_value.rs", "c12_o3_float", timeout=300,
   what="float(f) is a float and nothing else; reads back bit-identically unless NaN; all NaNs become one NaN",
   functions=VALUE_FNS, bounds="none: all 2^64 f64 bit patterns")
ob("C12", "O4", "leaf", "c12_value.rs", "c12_o4_other_kinds", timeout=300,
   what="bool/null/ptr/nested-fn-marker are one kind each and read back exactly; marker != pointer with same payload",
   functions=VALUE_FNS, bounds="payloads < 2^48 (documented precondition of ptr/nested_fn_marker)",
   assumes=["ptr(p), nested_fn_marker(i): p,i < 2^48 (debug_assert in the constructors)"])
ob("C12", "O5", "leaf", "c12_value.rs", "c12_o5_equality", timeout=300, args=["--default-unwind", "6"],
   what="== agrees with numeric equality within and across int/float for all non-NaN numbers; values of different non-numeric kinds are never equal",
   functions=VALUE_FNS, bounds="ints in 48-bit range, floats all non-NaN bit patterns")
ob("C12", "O6", "leaf", "c12_value.rs", "c12_o6_type_name_truthy", timeout=300,
   what="type_name and is_truthy return the branch of the one kind that holds, for every bit pattern",
   functions=VALUE_FNS, bounds="none: all 2^64 bit patterns")

# ---------------------------------------------------------------- C04 (generated per-opcode steps)
import os as _os, sys as _sys
_sys.path.insert(0, _os.path.dirname(__file__))
import opgen as _opgen, shellgen as _shellgen

REPO = _os.environ.get("VERIF_REPO", "/repo")
VM_STUBS = ["std::hash::RandomState::new -> fixed keys", "std::fmt::format -> empty String", "VM::runtime_error -> same kind, empty stack trace",
            "GlobalLayout::empty -> cfg(kani) twin without OnceLock"]
CALL_STUBS = VM_STUBS + ["VM::call_cached_native -> arbitrary Ok(value)/Err, records the native's name",
                         "VM::ensure_function_verified -> Ok(()) (objects are built verified=true; the verifier has its own obligations)",
                         "VM::prepare_globals_for_function / sync_current_function_globals -> assume(false): one global layout only",
                         "VM::print_value -> no-op (stdout)"]
SHELL_PATH = "vm::dispatch::verif_shell::"
RELEASE_ENV = {"CARGO_PROFILE_DEV_DEBUG_ASSERTIONS": "false"}
C04_QUICK = {0, 2, 5, 18, 22, 36, 52, 125, 135, 161}


def _c04():
    try:
        info = _shellgen.parse_run_rs(REPO)
        groups = {a["file"]: _shellgen.pat_to_list(a["pat"]) for a in info["arms"]}
        rows = _opgen.table(REPO, groups)
    except Exception as e:  # noqa
        return
    for r in rows:
        ob("C04", "S%03d" % r["op"], "runtime", "shell.rs", r["harness"], path=SHELL_PATH + r["harness"],
           tier="quick" if r["op"] in C04_QUICK else "thorough", timeout=1500, args=["--default-unwind", "7"], env=RELEASE_ENV,
           what="one step of opcode %d (%s) from an arbitrary coherent frame state: no memory error, no panic; ends in a value, a reported error, or cached locals that match the new top frame" % (r["op"], r["name"]),
           functions=["VM::run_fast body re-instantiated around ops/%s.inc (opcode %d)" % (r["group"], r["op"])],
           bounds="function of 4 symbolic words + 2 symbolic constants; instruction word fully symbolic (all operand fields); ip in 0..4; window base <= 2; "
                  "register file of 6 symbolic Values; heap pool '%s'; heap budget 64 bytes from the limit; global unwind 7; GC off (no_gc_depth=1)" % r["pool"],
           stubs=CALL_STUBS, assumes=["debug_assert! compiled out (release configuration) - typed opcodes on ill-typed registers are C06's subject",
                                      "no verifier assumption: handlers must be self-guarding because cache words and jump targets are unchecked"])


_c04()

# ---------------------------------------------------------------- C18
LAYOUT_FNS = ["air/src/layout.rs re-instantiated byte for byte: struct_layout, resolved_layout, layout_of, align_to, references_by_value"]
for _k, _t, _tier in ((0, 120, "quick"), (1, 300, "quick"), (2, 400, "quick"), (3, 900, "thorough"), (4, 1200, "thorough")):
    ob("C18", "O1k%d" % _k, "leaf", "c18_layout.rs", "c18_o1_fields%d" % _k, tier=_tier, timeout=_t, stubbing=True,
       what="struct_layout of a %d-field struct: offsets/size/align satisfy the declarative SysV rules (least padding, size multiple of max alignment)" % _k,
       functions=LAYOUT_FNS, bounds="exactly %d fields; each field symbolic among 15 leaf types (ints, floats, bool, str, pointers, slice) or a fixed array of 0..=4 such leaves" % _k,
       stubs=["std::hash::RandomState::new -> fixed keys (the map stays empty)"])
ob("C18", "O2", "leaf", "c18_layout.rs", "c18_o2_align_to", timeout=120, stubbing=True,
   what="align_to(o,a) is the least multiple of a >= o", functions=LAYOUT_FNS, bounds="o < 2^31, a in {1,2,4,8,16}")
ob("C18", "O4", "leaf", "c18_layout.rs", "c18_o4_references_by_value", timeout=120, stubbing=True,
   what="references_by_value holds iff the struct is mentioned outside a pointer", functions=LAYOUT_FNS, bounds="type depth <= 2, two names")

for _h, _shape in (("c04_v1_shape_w1_k0", "1 word, no constants"), ("c04_v1_shape_w2_k1_nested", "2 words, 1 constant, nested function"),
                   ("c04_v1_shape_w3_k2_nested_upvals", "3 words, 2 constants, nested function with an upvalue descriptor, own upvalue descriptor"),
                   ("c04_v1_shape_w1_k1_upval", "1 word, 1 constant, own upvalue descriptor")):
    ob("C04", "V1_" + _h.split("shape_")[1], "runtime", "shell.rs", _h, path=SHELL_PATH + _h, tier="thorough", timeout=3000,
       args=["--default-unwind", "5"],
       what="the verifier is total on this shape (no panic / out-of-bounds index for any first word, any constants) and what it accepts "
            "satisfies the guarantees the handlers document they rely on (cache words inside the bytecode, constant / upvalue operands inside their tables, "
            "MakeClosure's marker and descriptor count, jump targets inside 0..=len)",
       functions=["vm::verifier::verify_function and everything under vm/verifier/**", "OpCode::from_u8"],
       bounds="shape: %s; first word fully symbolic (any opcode byte, any operands); trailing words are Return0; constants any bit pattern; global unwind 5" % _shape,
       stubs=VM_STUBS)
ob("C04", "V2", "runtime", "shell.rs", "c04_v2_from_u8_declared_only", path=SHELL_PATH + "c04_v2_from_u8_declared_only", tier="quick", timeout=300,
   what="OpCode::from_u8(b) is Some exactly for the declared discriminants (table generated from opcode.rs) and round-trips",
   functions=["aelys_bytecode::OpCode::from_u8"], bounds="none: all 256 bytes", stubs=[])
