"""Registry of obligations: one entry = one Kani harness = one solver query family.
Fields: id, crate (leaf|runtime|opt), file, harness, tier, timeout (s), args, what, functions, bounds, stubs, assumes."""

OBLIGATIONS = {}
SYNTACTIC = {}


def ob(prop, oid, crate, file, harness, tier="quick", timeout=600, **kw):
    d = dict(id=oid, crate=crate, file=file, harness=harness, tier=tier, timeout=timeout)
    d.update(kw)
    OBLIGATIONS.setdefault(prop, []).append(d)


VALUE_FNS = ["aelys_bytecode::Value::{int,int_checked,float,bool,null,ptr,nested_fn_marker}",
             "Value::{is_int,is_float,is_bool,is_null,is_ptr}",
             "Value::{as_int,as_float,as_bool,as_ptr,as_nested_fn_marker,as_int_unchecked,as_float_unchecked,raw_bits,from_raw}",
             "<Value as PartialEq>::eq", "Value::{is_truthy,type_name}"]

# ---------------------------------------------------------------- C12
ob("C12", "O1", "leaf", "c12_value.rs", "c12_o1_partition", timeout=300,
   what="every u64 bit pattern is exactly one of int/float/bool/null/ptr/nested-fn-marker and accessors agree with predicates",
   functions=VALUE_FNS, bounds="none: all 2^64 bit patterns")
ob("C12", "O2", "leaf", "c12_value.rs", "c12_o2_int", timeout=300,
   what="int(n) wraps by two's complement at 48 bits; int_checked(n) is Ok iff n in [-2^47, 2^47-1] and then reads back n",
   functions=VALUE_FNS, bounds="none: all i64")
ob("C12", "O3", "leaf", "c12_value.rs", "c12_o3_float", timeout=300,
   what="float(f) is a float and nothing else; reads back bit-identically unless NaN; all NaNs become one NaN",
   functions=VALUE_FNS, bounds="none: all 2^64 f64 bit patterns")
ob("C12", "O4", "leaf", "c12_value.rs", "c12_o4_other_kinds", timeout=300,
   what="bool/null/ptr/nested-fn-marker are one kind each and read back exactly; marker != pointer with same payload",
   functions=VALUE_FNS, bounds="payloads < 2^48 (documented precondition of ptr/nested_fn_marker)",
   assumes=["ptr(p), nested_fn_marker(i): p,i < 2^48 (debug_assert in the constructors)"])
ob("C12", "O5", "leaf", "c12_value.rs", "c12_o5_equality", timeout=300, args=["--default-unwind", "6"],
   what="== agrees with numeric equality within and across int/float for all non-NaN numbers; values of different non-numeric kinds are never equal",
   functions=VALUE_FNS, bounds="ints in 48-bit range, floats all non-NaN bit patterns")
ob("C12", "O6", "leaf", "c12_value.rs", "c12_o6_type_name_truthy", timeout=300,
   what="type_name and is_truthy return the branch of the one kind that holds, for every bit pattern",
   functions=VALUE_FNS, bounds="none: all 2^64 bit patterns")

# ---------------------------------------------------------------- C04 (generated per-opcode steps)
import os as _os, sys as _sys
_sys.path.insert(0, _os.path.dirname(__file__))
import opgen as _opgen, shellgen as _shellgen

REPO = _os.environ.get("VERIF_REPO", "/repo")
VM_STUBS = ["std::hash::RandomState::new -> fixed keys", "std::fmt::format -> empty String", "VM::runtime_error -> same kind, empty stack trace",
            "GlobalLayout::empty -> cfg(kani) twin without OnceLock"]
CALL_STUBS = VM_STUBS + ["VM::call_cached_native -> arbitrary Ok(value)/Err, records the native's name",
                         "VM::ensure_function_verified -> Ok(()) (objects are built verified=true; the verifier has its own obligations)",
                         "VM::prepare_globals_for_function / sync_current_function_globals -> assume(false): one global layout only",
                         "VM::print_value -> no-op (stdout)"]
SHELL_PATH = "vm::dispatch::verif_shell::"
RELEASE_ENV = {"CARGO_PROFILE_DEV_DEBUG_ASSERTIONS": "false"}
C04_QUICK = {0, 2, 5, 18, 22, 36, 52, 125, 135, 161}


def _c04():
    try:
        info = _shellgen.parse_run_rs(REPO)
        groups = {a["file"]: _shellgen.pat_to_list(a["pat"]) for a in info["arms"]}
        rows = _opgen.table(REPO, groups)
    except Exception as e:  # noqa
        return
    for r in rows:
        ob("C04", "S%03d" % r["op"], "runtime", "shell.rs", r["harness"], path=SHELL_PATH + r["harness"],
           tier="quick" if r["op"] in C04_QUICK else "thorough", timeout=1500, args=["--default-unwind", "7"], env=RELEASE_ENV,
           what="one step of opcode %d (%s) from an arbitrary coherent frame state: no memory error, no panic; ends in a value, a reported error, or cached locals that match the new top frame" % (r["op"], r["name"]),
           functions=["VM::run_fast body re-instantiated around ops/%s.inc (opcode %d)" % (r["group"], r["op"])],
           bounds="function of 4 symbolic words + 2 symbolic constants; instruction word fully symbolic (all operand fields); ip in 0..4; window base <= 2; "
                  "register file of 6 symbolic Values; heap pool '%s'; heap budget 64 bytes from the limit; global unwind 7; GC off (no_gc_depth=1)" % r["pool"],
           stubs=CALL_STUBS, assumes=["debug_assert! compiled out (release configuration) - typed opcodes on ill-typed registers are C06's subject",
                                      "no verifier assumption: handlers must be self-guarding because cache words and jump targets are unchecked"])


_c04()
