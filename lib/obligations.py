"""Registry of obligations: one entry = one Kani harness = one solver query family.
Fields: id, crate (leaf|runtime|opt), file, harness, tier, timeout (s), args, what, functions, bounds, stubs, assumes."""

OBLIGATIONS = {}
SYNTACTIC = {}


def ob(prop, oid, crate, file, harness, tier="quick", timeout=600, **kw):
    d = dict(id=oid, crate=crate, file=file, harness=harness, tier=tier, timeout=timeout)
    d.update(kw)
    OBLIGATIONS.setdefault(prop, []).append(d)


VALUE_FNS = ["aelys_bytecode::Value::{int,int_checked,float,bool,null,ptr,nested_fn_marker}",
             "Value::{is_int,is_float,is_bool,is_null,is_ptr}",
             "Value::{as_int,as_float,as_bool,as_ptr,as_nested_fn_marker,as_int_unchecked,as_float_unchecked,raw_bits,from_raw}",
             "<Value as PartialEq>::eq", "Value::{is_truthy,type_name}"]

# ---------------------------------------------------------------- C12
ob("C12", "O1", "leaf", "c12_value.rs", "c12_o1_partition", timeout=300,
   what="every u64 bit pattern is exactly one of int/float/bool/null/ptr/nested-fn-marker and accessors agree with predicates",
   functions=VALUE_FNS, bounds="none: all 2^64 bit patterns")
ob("C12", "O2", "leaf", "c12_value.rs", "c12_o2_int", timeout=300,
   what="int(n) wraps by two's complement at 48 bits; int_checked(n) is Ok iff n in [-2^47, 2^47-1] and then reads back n",
   functions=VALUE_FNS, bounds="none: all i64")
ob("C12", "O3", "leaf", "c12_value.rs", "c12_o3_float", timeout=300,
   what="float(f) is a float and nothing else; reads back bit-identically unless NaN; all NaNs become one NaN",
   functions=VALUE_FNS, bounds="none: all 2^64 f64 bit patterns")
ob("C12", "O4", "leaf", "c12_value.rs", "c12_o4_other_kinds", timeout=300,
   what="bool/null/ptr/nested-fn-marker are one kind each and read back exactly; marker != pointer with same payload",
   functions=VALUE_FNS, bounds="payloads < 2^48 (documented precondition of ptr/nested_fn_marker)",
   assumes=["ptr(p), nested_fn_marker(i): p,i < 2^48 (debug_assert in the constructors)"])
ob("C12", "O5", "leaf", "c12_value.rs", "c12_o5_equality", timeout=300, args=["--default-unwind", "6"],
   what="== agrees with numeric equality within and across int/float for all non-NaN numbers; values of different non-numeric kinds are never equal",
   functions=VALUE_FNS, bounds="ints in 48-bit range, floats all non-NaN bit patterns")
ob("C12", "O6", "leaf", "c12_value.rs", "c12_o6_type_name_truthy", timeout=300,
   what="type_name and is_truthy return the branch of the one kind that holds, for every bit pattern",
   functions=VALUE_FNS, bounds="none: all 2^64 bit patterns")

# ---------------------------------------------------------------- C04 (generated per-opcode steps)
import os as _os, sys as _sys
_sys.path.insert(0, _os.path.dirname(__file__))
import opgen as _opgen, shellgen as _shellgen

REPO = _os.environ.get("VERIF_REPO", "/repo")
VM_STUBS = ["std::hash::RandomState::new -> fixed keys", "std::fmt::format -> empty String", "VM::runtime_error -> same kind, empty stack trace",
            "GlobalLayout::empty -> cfg(kani) twin without OnceLock"]
CALL_STUBS = VM_STUBS + ["VM::call_cached_native -> arbitrary Ok(value)/Err, records the native's name",
                         "VM::ensure_function_verified -> Ok(()) (objects are built verified=true; the verifier has its own obligations)",
                         "VM::prepare_globals_for_function / sync_current_function_globals -> assume(false): one global layout only",
                         "VM::print_value -> no-op (stdout)", "VM::verify_function_value -> Ok(()) (re-verification of an instantiated nested function; the verifier has its own obligations)"]
SHELL_PATH = "vm::dispatch::verif_shell::"
RELEASE_ENV = {"CARGO_PROFILE_DEV_DEBUG_ASSERTIONS": "false"}
C04_QUICK = {0, 1, 5, 18, 21, 22, 36, 52, 80, 125, 135, 161}


def _c04():
    try:
        info = _shellgen.parse_run_rs(REPO)
        groups = {a["file"]: _shellgen.pat_to_list(a["pat"]) for a in info["arms"]}
        rows = _opgen.table(REPO, groups)
    except Exception as e:  # noqa
        return
    for r in rows:
        ob("C04", "S%03d" % r["op"], "runtime", "shell.rs", r["harness"], path=SHELL_PATH + r["harness"],
           tier="quick" if r["op"] in C04_QUICK else "thorough", timeout=1500, args=["--default-unwind", "7"], env=RELEASE_ENV,
           what="one step of opcode %d (%s) from an arbitrary coherent frame state: no memory error, no panic; ends in a value, a reported error, or cached locals that match the new top frame" % (r["op"], r["name"]),
           functions=["VM::run_fast body re-instantiated around ops/%s.inc (opcode %d)" % (r["group"], r["op"])],
           bounds="function of 4 symbolic words + 2 symbolic constants; instruction word fully symbolic (all operand fields); ip in 0..4; window base <= 2; "
                  "register file of 6 symbolic Values; heap pool '%s'; heap budget 64 bytes from the limit; global unwind 7; GC off (no_gc_depth=1)" % r["pool"],
           stubs=CALL_STUBS, assumes=["debug_assert! compiled out (release configuration) - typed opcodes on ill-typed registers are C06's subject",
                                      "no verifier assumption: handlers must be self-guarding because cache words and jump targets are unchecked"])


_c04()

# ---------------------------------------------------------------- C18
LAYOUT_FNS = ["air/src/layout.rs re-instantiated byte for byte: struct_layout, resolved_layout, layout_of, align_to, references_by_value"]
for _k, _t, _tier in ((0, 120, "quick"), (1, 300, "quick"), (2, 400, "quick"), (3, 900, "thorough"), (4, 1200, "thorough")):
    ob("C18", "O1k%d" % _k, "leaf", "c18_layout.rs", "c18_o1_fields%d" % _k, tier=_tier, timeout=_t, stubbing=True,
       what="struct_layout of a %d-field struct: offsets/size/align satisfy the declarative SysV rules (least padding, size multiple of max alignment)" % _k,
       functions=LAYOUT_FNS, bounds="exactly %d fields; each field symbolic among 15 leaf types (ints, floats, bool, str, pointers, slice) or a fixed array of 0..=4 such leaves" % _k,
       stubs=["std::hash::RandomState::new -> fixed keys (the map stays empty)"])
ob("C18", "O2", "leaf", "c18_layout.rs", "c18_o2_align_to", timeout=120, stubbing=True,
   what="align_to(o,a) is the least multiple of a >= o", functions=LAYOUT_FNS, bounds="o < 2^31, a in {1,2,4,8,16}")
ob("C18", "O4", "leaf", "c18_layout.rs", "c18_o4_references_by_value", timeout=120, stubbing=True,
   what="references_by_value holds iff the struct is mentioned outside a pointer", functions=LAYOUT_FNS, bounds="type depth <= 2, two names")

for _h, _shape in (("c04_v1_shape_w1_k0", "1 word, no constants"), ("c04_v1_shape_w2_k1", "2 words, 1 constant"),
                   ("c04_v1_shape_w3_k2", "3 words, 2 constants, own upvalue descriptor"),
                   ("c04_v1_shape_w1_k1_upval", "1 word, 1 constant, own upvalue descriptor")):
    ob("C04", "V1_" + _h.split("shape_")[1], "runtime", "shell.rs", _h, path=SHELL_PATH + _h, tier="thorough", timeout=3000,
       args=["--default-unwind", "5"],
       what="the verifier is total on this shape (no panic / out-of-bounds index for any first word, any constants) and what it accepts "
            "satisfies the guarantees the handlers document they rely on (cache words inside the bytecode, constant / upvalue operands inside their tables, "
            "MakeClosure's marker and descriptor count, jump targets inside 0..=len)",
       functions=["vm::verifier::verify_function and everything under vm/verifier/**", "OpCode::from_u8"],
       bounds="shape: %s; first word fully symbolic (any opcode byte, any operands); trailing words are Return0; constants any bit pattern; global unwind 5" % _shape,
       stubs=VM_STUBS)
ob("C04", "V2", "runtime", "shell.rs", "c04_v2_from_u8_declared_only", path=SHELL_PATH + "c04_v2_from_u8_declared_only", tier="quick", timeout=300,
   what="OpCode::from_u8(b) is Some exactly for the declared discriminants (table generated from opcode.rs) and round-trips",
   functions=["aelys_bytecode::OpCode::from_u8"], bounds="none: all 256 bytes", stubs=[])

# ---------------------------------------------------------------- C06 / C02 (generated differential steps) + leaf selection
C06_QUICK = {"LtIIG", "LtFFG", "EqIIG", "SubII", "AndII"}
C02_QUICK = {"Add", "Lt", "Ge", "Shl"}


def _c06_c02():
    try:
        info = _shellgen.parse_run_rs(REPO)
        groups = {a["file"]: _shellgen.pat_to_list(a["pat"]) for a in info["arms"]}
        prs = _opgen.pairs(REPO, groups)
        refs = _opgen.ref_rows(REPO, groups)
    except Exception as e:  # noqa
        return
    modes = {"MODE_ANY": "any Value in the operand registers", "MODE_INTS": "operand registers hold ints", "MODE_FLOATS": "operand registers hold floats",
             "MODE_PROMOTED": "any Value; the generic twin runs on float-promoted operands (a guarded float opcode is defined as 'treat ints as floats')",
             "MODE_NOFLOAT": "any Value except floats (float * / % kernels do not finish in CBMC)",
             "MODE_PROMOTED_SMALL_RIGHT": "left operand any Value, right operand an int in -8..=8, one of the floats 0.5, 2.0, -1.5, inf, or a non-number; generic twin on float-promoted operands (two full-width symbolic float multipliers/dividers do not finish)",
             "MODE_INTS_SMALL_RIGHT": "left operand any int, right operand an int in -16..=16 (two full-width symbolic multipliers/dividers do not finish)",
             "MODE_NONAN": "any Value except NaN", "MODE_PROMOTED_NONAN": "any Value except NaN; generic twin on float-promoted operands"}
    for p in prs:
        ob("C06", "P%03d" % p["top"], "runtime", "shell.rs", p["harness"], path=SHELL_PATH + p["harness"],
           tier="quick" if p["tname"] in C06_QUICK else "thorough", timeout=1800, args=["--default-unwind", "7"],
           what="%s (%d) and its generic twin %s (%d), run from identical states, end the same way: same error kind, or same destination value and next ip"
                % (p["tname"], p["top"], p["gname"], p["gop"]),
           functions=["ops/%s.inc handler %d" % (p["tgroup"], p["top"]), "ops/%s.inc handler %d" % (p["ggroup"], p["gop"]), "VM::{add,sub,mul,div,mod}_values, compare_*"],
           bounds="operand fields a,b,c symbolic (0..255 each); base <= 2; 6 symbolic registers; operands: %s; one heap string" % modes[p["mode"]],
           stubs=VM_STUBS, assumes=["debug_assert! ON (dev profile): a typed opcode reaching an ill-typed operand would be reported"])
    for r in refs:
        ob("C02", "R%03d" % r["op"], "runtime", "shell.rs", r["harness"], path=SHELL_PATH + r["harness"],
           tier="quick" if r["name"] in C02_QUICK else "thorough", timeout=900 if r["small"] else 2400, args=["--default-unwind", "7"],
           what="generic %s (%d) equals the definitional single-operation evaluator (48-bit wrap, truncating division, division-by-zero error, "
                "int/float promotion, shift count & 63, IEEE floats): same value bits or same error kind" % (r["name"], r["op"]),
           functions=["ops/%s.inc handler %d" % (r["group"], r["op"]), "VM::*_values / compare_*"],
           bounds="operands: any non-pointer Values" + ("; ints only with one operand within 12 bits (64-bit symbolic multiply/divide does not terminate in SAT; float * / % excluded)" if r["small"] else "")
                  + "; operand/dest register indices symbolic within the 6-register file",
           stubs=VM_STUBS)


_c06_c02()
ob("C06", "O3a", "leaf", "c06_select.rs", "c06_o3a_selection_certain", timeout=300, stubbing=True,
   what="select_opcode over certain operand types: an unguarded typed opcode only for two operands of its class; int/float mixes get the guarded float form "
        "(never an unguarded one); anything else the generic opcode",
   functions=["aelys_backend::opcode_select::select_opcode and its five tables"], bounds="all 16 operators x 15 x 15 leaf ResolvedTypes (exhaustive by solver)")
ob("C06", "O3b", "leaf", "c06_select.rs", "c06_o3b_selection_uncertain", timeout=300, stubbing=True,
   what="an Uncertain operand never gets an unguarded arithmetic/comparison opcode",
   functions=["aelys_backend::opcode_select::select_opcode"], bounds="11 arithmetic/comparison operators x Uncertain(14 leaves) x 15 leaves, either side",
   assumes=["bit operations excluded: the instruction set has no guarded bit opcodes, and Uncertain is never produced from source (only from an Uncertain input)"])
ob("C02", "O2", "leaf", "c02_constants.rs", "c02_o2_add_constant_identity", timeout=300, stubbing=True,
   what="Function::add_constant: the index returned for a value holds a constant with exactly that value's bits, whatever was added before",
   functions=["aelys_bytecode::Function::add_constant", "<Value as PartialEq>::eq"], bounds="two arbitrary 64-bit Values (all kinds, all bit patterns)",
   stubs=["GlobalLayout::empty -> cfg(kani) twin without OnceLock"])

# ---------------------------------------------------------------- C09 / C13 / C20 / C05 (hand-written in-repo harnesses)
U7 = ["--default-unwind", "7"]
MEM_FNS = ["ops/memory.inc handlers", "VM::manual_alloc / manual_free / manual_heap_error / ensure_heap_capacity", "ManualHeap::{alloc,free,load,store,size}"]
MEM_BOUNDS = ("manual heap = {handle 0: live 2-slot buffer with symbolic contents, handle 1: freed}; operand fields, window base (<=2) and all 6 "
              "registers symbolic (any Value: negative, huge, non-int, null)")
for _oid, _h, _tier, _what in (
        ("O3load", "c09_o3_loadmem", "quick", "LoadMem: Ok iff handle 0 and offset in {0,1}, then the stored value; otherwise an error; nothing changes"),
        ("O3loadi", "c09_o3_loadmemi", "thorough", "LoadMemI: same with an immediate offset 0..255"),
        ("O3store", "c09_o3_storemem", "quick", "StoreMem: a legal store changes exactly the addressed slot; an illegal one is an error and changes nothing"),
        ("O3storei", "c09_o3_storememi", "thorough", "StoreMemI: same with an immediate offset"),
        ("O3free", "c09_o3_free", "quick", "Free: handle 0 frees the buffer and un-charges it; null is a no-op; a second free, a never-issued, negative or non-integer handle is an error and changes nothing"),
        ("O3alloc", "c09_o3_alloc", "quick", "Alloc: sizes 1..5 within budget yield the recycled handle 1, null-filled, charged 8 bytes per slot, other buffer untouched; 0, negative, non-int or over-budget sizes are errors and change nothing")):
    ob("C09", _oid, "runtime", "shell.rs", _h, path=SHELL_PATH + _h, tier=_tier, timeout=1500, args=U7, what=_what, functions=MEM_FNS,
       bounds=MEM_BOUNDS + ("; heap budget 40 bytes from the limit" if "alloc" in _h else ""), stubs=VM_STUBS)
ob("C09", "O1hist", "runtime", "shell.rs", "c09_o1_history2", path=SHELL_PATH + "c09_o1_history2", tier="thorough", timeout=2400,
   what="every history of 2 operations (alloc/free/load/store/size with symbolic arguments) on the real ManualHeap agrees with an executable model; charge = 8 x live slots after every step",
   functions=["ManualHeap::{new,alloc,free,load,store,size,bytes_allocated}"], bounds="2 operations, sizes 0..2, handles/offsets any usize, values any bits", stubs=[])
# (c09_o1_recycle is not registered: the solver ran out of memory at 14 GB even on the 5-operation version - symbolic Vec lengths;
#  recycled-slot accounting is decided by O3alloc and by C10 O1manual from states that contain a freed slot)

ob("C13", "O1enter", "runtime", "shell.rs", "c13_o1_enter", path=SHELL_PATH + "c13_o1_enter", timeout=600, args=U7,
   what="EnterNoGc: depth becomes depth+1 for every depth (no saturation), nothing else changes", functions=["ops/memory.inc handler 26"],
   bounds="depth any usize < MAX", stubs=VM_STUBS)
ob("C13", "O1exit", "runtime", "shell.rs", "c13_o1_exit", path=SHELL_PATH + "c13_o1_exit", timeout=600, args=U7,
   what="ExitNoGc: depth>0 becomes depth-1; at 0 an InvalidBytecode error and depth stays 0; nothing else changes", functions=["ops/memory.inc handler 27"],
   bounds="depth any usize", stubs=VM_STUBS)
for _d in (1, 2, 64):
    ob("C13", "O2d%d" % _d, "runtime", "shell.rs", "c13_o2_no_collect_depth%d" % _d, path=SHELL_PATH + "c13_o2_no_collect_depth%d" % _d,
       tier="quick" if _d != 2 else "thorough", timeout=900, args=U7,
       what="with the collection threshold crossed and no_gc_depth = %d, maybe_collect frees nothing and changes no counter" % _d,
       functions=["VM::maybe_collect", "VM::is_in_no_gc", "Heap::should_collect"], bounds="heap of 2 strings, threshold symbolic (<= bytes allocated); depth concrete (a symbolic depth would unroll collect->mark)",
       stubs=VM_STUBS, assumes=["hook Heap::verif_set_gc_threshold (cfg(kani)) sets the threshold"])

STR_STUBS = VM_STUBS + ["VM::intern_string -> alloc_string (identity of interned strings is not part of the property)"]
for _l, _tier in ((2, "quick"), (3, "quick"), (4, "quick")):
    ob("C20", "O1len%d" % _l, "runtime", "shell.rs", "c20_o1_forloop_step_len%d" % _l, path=SHELL_PATH + "c20_o1_forloop_step_len%d" % _l, tier=_tier,
       timeout=2400, args=U7,
       what="StringForLoop, one step from any character-boundary offset of any valid UTF-8 string of %d bytes: yields exactly the scalar starting there as a one-character string and advances to the next boundary, or falls through unchanged at the end" % _l,
       functions=["ops/control_flow.inc handler 177", "VM::alloc_string"], bounds="string of exactly %d symbolic bytes (valid UTF-8); offset symbolic" % _l, stubs=STR_STUBS)
for _l, _tier in ((2, "thorough"), (3, "thorough")):
    ob("C20", "O2len%d" % _l, "runtime", "shell.rs", "c20_o2_loadchar_len%d" % _l, path=SHELL_PATH + "c20_o2_loadchar_len%d" % _l, tier=_tier,
       timeout=1500, args=U7,
       what="StringLoadChar(s,i) for any Value i: Ok iff 0 <= i < character count, and then the i-th scalar as a one-character string; otherwise IndexOutOfBounds",
       functions=["ops/arrays.inc handler 176"], bounds="string of exactly %d symbolic bytes (valid UTF-8); index any Value" % _l, stubs=STR_STUBS)
for _l, _tier in ((2, "thorough"), (3, "thorough"), (4, "thorough")):
    ob("C20", "O3len%d" % _l, "runtime", "shell.rs", "c20_o3_lengths_len%d" % _l, path=SHELL_PATH + "c20_o3_lengths_len%d" % _l, tier=_tier,
       timeout=1500, args=U7,
       what="len (opcode 161 on a string) is the byte length = the sum of the sizes of the items iteration yields",
       functions=["ops/arrays.inc handler 161"], bounds="string of exactly %d symbolic bytes (valid UTF-8)" % _l, stubs=VM_STUBS)

C05_FNS = ["ops/call_global.inc", "ops/call_global_mono.inc", "ops/calls.inc handler 104", "dispatch/cache.rs", "VM::set_global_by_index"]
C05_BOUNDS = ("caller + two distinct callees (arity 0/1 symbolic) + one native; global 0 bound to any of them, an int or null; the two words after the call "
              "arbitrary (slot <= 1); call-site cache of 2 entries, each default or the entry of *either* callee; nargs 0/1; dest <= 2; one global layout")
ob("C05", "O1", "runtime", "shell.rs", "c05_o1_cache_words_roundtrip", path=SHELL_PATH + "c05_o1_cache_words_roundtrip", timeout=300,
   what="decode_cache_words(encode_cache_words(ptr, slot)) == (ptr, slot)", functions=["dispatch/cache.rs"], bounds="ptr < 2^48, any slot", stubs=[])
for _oid, _h, _tier in (("O2a", "c05_o2a_callglobal", "thorough"), ("O2b", "c05_o2b_callglobalmono", "quick"), ("O2c", "c05_o2c_callglobalnative", "quick")):
    ob("C05", _oid, "runtime", "shell.rs", _h, path=SHELL_PATH + _h, tier=_tier, timeout=2400, args=U7,
       what="the frame pushed runs the code of the function the global denotes now (or that native is called, or an error is reported); a callable binding of matching arity is called",
       functions=C05_FNS, bounds=C05_BOUNDS, stubs=CALL_STUBS)
ob("C05", "O2e", "runtime", "shell.rs", "c05_o2e_set_global_invalidates", path=SHELL_PATH + "c05_o2e_set_global_invalidates", timeout=900, args=U7,
   what="set_global_by_index leaves no call-site cache entry behind", functions=["VM::set_global_by_index"], bounds=C05_BOUNDS, stubs=VM_STUBS)

# ---------------------------------------------------------------- C01 (opt crate, in-crate harness module via hook)
FOLD_PATH = "passes::constant_fold::expr::binary::verif_fold::"
_full = "a, b: all of i64 x i64 (operands outside the 48-bit range must not fold)"
for _n, _dom, _tier, _to in (("add", _full, "quick", 600), ("sub", _full, "thorough", 600), ("shl", _full, "quick", 600), ("shr", _full, "quick", 600),
                             ("and", _full, "thorough", 600), ("or", _full, "thorough", 600), ("xor", _full, "thorough", 600),
                             ("lt", _full, "quick", 600), ("le", _full, "thorough", 600), ("gt", _full, "thorough", 600), ("ge", _full, "thorough", 600),
                             ("eq", _full, "thorough", 600), ("ne", _full, "thorough", 600),
                             ("mul", "one operand (either side) within 12 bits, the other any i64 (symbolic x symbolic 64-bit multiply does not terminate in SAT)", "quick", 1200),
                             ("div", "divisor within 8 bits signed (incl. 0 and -1), dividend any i64", "quick", 1800),
                             ("mod", "divisor within 8 bits signed (incl. 0 and -1), dividend any i64", "thorough", 1800)):
    ob("C01", "I" + _n, "opt", "fold.rs", "c01_fold_int_" + _n, path=FOLD_PATH + "c01_fold_int_" + _n, tier=_tier, timeout=_to,
       what="fold_int_binary(a, %s, b): whatever is folded is exactly the VM's result (48-bit wrap, truncating division, & 63 shift mask) and nothing is folded where the VM raises an error" % _n,
       functions=["aelys_opt ConstantFolder::fold_int_binary", "is_in_vm_range"], bounds=_dom, stubs=[])
for _n, _tier in (("add", "quick"), ("sub", "thorough"), ("lt", "quick"), ("le", "thorough"), ("eq", "quick"), ("ne", "thorough")):
    ob("C01", "F" + _n, "opt", "fold.rs", "c01_fold_float_" + _n, path=FOLD_PATH + "c01_fold_float_" + _n, tier=_tier, timeout=900,
       what="fold_float_binary(a, %s, b): the folded literal is bit-identical to the IEEE result the VM computes" % _n,
       functions=["aelys_opt ConstantFolder::fold_float_binary"], bounds="a, b: all f64 bit patterns", stubs=[])
ob("C01", "O3", "opt", "fold.rs", "c01_in_vm_range", path=FOLD_PATH + "c01_in_vm_range", timeout=300,
   what="is_in_vm_range(n) iff n is a 48-bit two's-complement value", functions=["aelys_opt is_in_vm_range"], bounds="all i64", stubs=[])

# ---------------------------------------------------------------- C10
C10_BOUNDS = "VM holding two strings and a 2-slot manual buffer, 0..=64 bytes (symbolic) below its limit"
for _oid, _h, _tier, _what, _fns in (
        ("O1str", "c10_o1_alloc_string", "quick", "alloc_string of any 2-byte UTF-8 string: admitted iff its byte size fits, charged exactly, else OutOfMemory and nothing charged", ["VM::alloc_string", "VM::ensure_heap_capacity", "Heap::estimate_string_size"]),
        ("O1manual", "c10_o1_manual_alloc", "quick", "manual_alloc(size) for every usize: admitted iff size>=1 and 8*size fits, charged exactly; otherwise an error and nothing charged; no overflow", ["VM::manual_alloc", "VM::ensure_heap_capacity", "ManualHeap::alloc"]),
        ("O1elem", "c10_o1_element_request", "quick", "check_element_request(count, elem) for every i64 count: negative -> InvalidAllocationSize, over budget -> OutOfMemory, before any host allocation", ["VM::check_element_request", "VM::ensure_heap_capacity"]),
        ("O1array", "c10_o1_alloc_array", "thorough", "alloc_array of 0..4 ints: admitted iff it fits, charged exactly", ["VM::alloc_array", "VM::alloc_object"]),
        ("O2vecpush", "c10_o2_vecpush_growth_charged", "quick", "VecPushI on a full Vec with < 1 element of headroom: an error, or the storage the Vec owns afterwards is within the limit", ["ops/arrays.inc handler 153", "AelysVec::push"])):
    ob("C10", _oid, "runtime", "shell.rs", _h, path=SHELL_PATH + _h, tier=_tier, timeout=1500, args=U7, what=_what, functions=_fns, bounds=C10_BOUNDS, stubs=VM_STUBS)

# ---------------------------------------------------------------- C07 (the verification/loading door: shares the verifier harnesses with C04)
ob("C07", "V2", "runtime", "shell.rs", "c04_v2_from_u8_declared_only", path=SHELL_PATH + "c04_v2_from_u8_declared_only", tier="quick", timeout=300,
   what="OpCode::from_u8(b) is Some exactly for the declared discriminants and never constructs an invalid enum value",
   functions=["aelys_bytecode::OpCode::from_u8"], bounds="none: all 256 bytes", stubs=[])
for _h, _shape, _tier in (("c04_v1_shape_w1_k0", "1 word, no constants", "quick"), ("c04_v1_shape_w1_k1_upval", "1 word, 1 constant, own upvalue descriptor", "thorough")):
    ob("C07", "V1_" + _h.split("shape_")[1], "runtime", "shell.rs", _h, path=SHELL_PATH + _h, tier=_tier, timeout=3000, args=["--default-unwind", "5"],
       what="verify_function on an arbitrary function object of this shape returns Ok or Err: no panic, no out-of-bounds index, no overflow",
       functions=["vm::verifier::verify_function and everything under vm/verifier/**", "OpCode::from_u8"],
       bounds="shape: %s; first word fully symbolic (any opcode byte, any operands); constants any bit pattern; global unwind 5" % _shape, stubs=VM_STUBS)

# ---------------------------------------------------------------- C02 (frames, upvalues, loop super-instructions)
for _oid, _h, _tier, _what, _fns in (
        ("O5close", "c02_o5_closeupvals_exact", "quick", "CloseUpvals closes exactly the open upvalues of registers at or above base+a (value preserved) and leaves the others open", ["ops/closures.inc handler 38", "VM::close_upvalues_from", "VM::get_upvalue_value"]),
        ("O5getset", "c02_o5_getset_upval", "thorough", "GetUpval/SetUpval read and write the live register through an open upvalue and the box through a closed one", ["ops/closures.inc handlers 36, 37", "VM::get_upvalue_value", "VM::set_upvalue_value"]),
        ("O1return", "c02_o1_return_lands_in_caller", "quick", "Return r<a>: the value lands in the caller's window at caller_base + return_dest, the caller resumes at its saved ip, cached locals match the caller frame", ["ops/calls.inc handler 22"]),
        ("O4loops", "c02_o4_forloop_iteration", "thorough", "ForLoopI / ForLoopIInc / WhileLoopLt: one iteration equals the documented range semantics (48-bit wrapping iterator, exclusive/inclusive bound, negative steps)", ["ops/control_flow.inc handlers 40, 41, 48"])):
    ob("C02", _oid, "runtime", "shell.rs", _h, path=SHELL_PATH + _h, tier=_tier, timeout=1500, args=U7, what=_what, functions=_fns,
       bounds="window base <= 2 (symbolic), 6 symbolic registers, upvalue location symbolic (open at any frame base <= 2 / register <= 3, or closed with any value); loop operands any 48-bit ints",
       stubs=VM_STUBS)

ob("C10", "O1strmb", "runtime", "shell.rs", "c10_o1_alloc_string_multibyte", path=SHELL_PATH + "c10_o1_alloc_string_multibyte", tier="quick", timeout=900, args=U7,
   what="alloc_string of a concrete 2-byte, 1-character string with symbolic headroom: admitted iff the *byte* size fits", functions=["VM::alloc_string", "VM::ensure_heap_capacity"],
   bounds=C10_BOUNDS, stubs=VM_STUBS)
C13_STUBS = CALL_STUBS + ["VM::collect -> sets a flag (a real collection runs Heap::mark, which CBMC cannot finish: C03)"]
ob("C13", "O1bexit", "runtime", "shell.rs", "c13_o1b_exit_inner_region_no_collect", path=SHELL_PATH + "c13_o1b_exit_inner_region_no_collect", tier="quick", timeout=900, args=U7,
   what="ExitNoGc that leaves an inner region (depth >= 2 before) with the threshold crossed does not start a collection", functions=["ops/memory.inc handler 27"],
   bounds="depth any usize >= 2; threshold crossed", stubs=C13_STUBS)
ob("C13", "O2biff", "runtime", "shell.rs", "c13_o2b_maybe_collect_iff", path=SHELL_PATH + "c13_o2b_maybe_collect_iff", tier="quick", timeout=900, args=U7,
   what="maybe_collect starts a collection iff no region is open and the threshold is crossed", functions=["VM::maybe_collect", "VM::is_in_no_gc", "Heap::should_collect"],
   bounds="depth any usize; threshold any usize", stubs=C13_STUBS)
for _h, _op, _tier in (("c13_o3_add_concat", 5, "quick"), ("c13_o3_alloc", 28, "thorough"), ("c13_o3_arraynewi", 130, "thorough"), ("c13_o3_arraylit", 134, "thorough"), ("c13_o3_stringforloop", 177, "thorough")):
    ob("C13", "O3op%03d" % _op, "runtime", "shell.rs", _h, path=SHELL_PATH + _h, tier=_tier, timeout=2400, args=U7, env=RELEASE_ENV,
       what="opcode %d (allocates) executed inside a region (depth 1..64) with the threshold crossed never starts a collection and leaves the depth alone" % _op,
       functions=["ops handler %d" % _op, "VM::maybe_collect"], bounds="C04 step state (4 symbolic words, 6 registers, pool); threshold crossed; depth 1..64", stubs=C13_STUBS)

# ---------------------------------------------------------------- C09 O4 byte buffers, C20 O3n native lengths
BYTES_FNS = ["stdlib/bytes.rs re-instantiated byte for byte: native_read_*/native_write_* (impl_read!/impl_write_int! expansions), native_fill, native_copy, native_size, native_free",
             "VM::get_resource / get_resource_mut / take_resource", "stdlib::helpers::{get_handle,get_int}"]
BYTES_BOUNDS = "two live buffers of 4 and 3 symbolic bytes + one freed handle; every argument an arbitrary 64-bit Value"
for _oid, _h, _tier, _what in (
        ("O4wu8", "c09_o4_w_u8", "quick", "write_u8"), ("O4ru8", "c09_o4_r_u8", "thorough", "read_u8"),
        ("O4wu16", "c09_o4_w_u16_le", "thorough", "write_u16 (little endian)"), ("O4ru16", "c09_o4_r_u16_le", "thorough", "read_u16 (little endian)"),
        ("O4wi16be", "c09_o4_w_i16_be", "thorough", "write_i16_be (signed, big endian)"), ("O4ri16be", "c09_o4_r_i16_be", "thorough", "read_i16_be (signed, big endian)"),
        ("O4wu32", "c09_o4_w_u32_le", "thorough", "write_u32 (width = whole buffer)"), ("O4ru32", "c09_o4_r_u32_le", "quick", "read_u32 (width = whole buffer)"),
        ("O4wi8", "c09_o4_w_i8", "thorough", "write_i8"), ("O4ri8", "c09_o4_r_i8", "thorough", "read_i8"),
        ("O4wi16", "c09_o4_w_i16_le", "thorough", "write_i16"), ("O4ri16", "c09_o4_r_i16_le", "thorough", "read_i16"),
        ("O4wu16be", "c09_o4_w_u16_be", "thorough", "write_u16_be"), ("O4ru16be", "c09_o4_r_u16_be", "thorough", "read_u16_be"),
        ("O4wi32", "c09_o4_w_i32_le", "thorough", "write_i32"), ("O4ri32", "c09_o4_r_i32_le", "thorough", "read_i32"),
        ("O4wu32be", "c09_o4_w_u32_be", "thorough", "write_u32_be"), ("O4ru32be", "c09_o4_r_u32_be", "thorough", "read_u32_be"),
        ("O4wi32be", "c09_o4_w_i32_be", "thorough", "write_i32_be"), ("O4ri32be", "c09_o4_r_i32_be", "quick", "read_i32_be (signed, big endian)"),
        ("O4fill", "c09_o4_fill", "thorough", "fill"), ("O4copy", "c09_o4_copy", "quick", "copy incl. overlapping ranges inside one buffer (memmove semantics)"),
        ("O4sizefree", "c09_o4_size_free", "thorough", "size / free / double free")):
    ob("C09", _oid, "runtime", "shell.rs", _h, path=SHELL_PATH + _h, tier=_tier, timeout=1800, args=U7,
       what="byte buffers, %s: a legal access reads/writes exactly the addressed bytes; out of range, negative, straddling, freed or never-issued handles and out-of-range values are errors that change no byte of any buffer" % _what,
       functions=BYTES_FNS, bounds=BYTES_BOUNDS, stubs=VM_STUBS)

# second part: 8-byte integers, floats, swap / reverse / equals (harness/inrepo/c09_bytes2.rs; buffers sized so the widest legal access exists)
for _oid, _h, _tier, _what, _b in (
        ("O4wu64", "c09_o4_w_u64_le", "thorough", "write_u64", "9+3"), ("O4ru64", "c09_o4_r_u64_le", "thorough", "read_u64", "9+3"),
        ("O4wi64", "c09_o4_w_i64_le", "thorough", "write_i64", "9+3"), ("O4ri64", "c09_o4_r_i64_le", "thorough", "read_i64", "9+3"),
        ("O4wu64be", "c09_o4_w_u64_be", "thorough", "write_u64_be", "9+3"), ("O4ru64be", "c09_o4_r_u64_be", "thorough", "read_u64_be", "9+3"),
        ("O4wi64be", "c09_o4_w_i64_be", "thorough", "write_i64_be", "9+3"), ("O4ri64be", "c09_o4_r_i64_be", "thorough", "read_i64_be", "9+3"),
        ("O4wf32", "c09_o4_w_f32_le", "thorough", "write_f32 (float or int argument)", "5+3"), ("O4rf32", "c09_o4_r_f32_le", "thorough", "read_f32", "5+3"),
        ("O4wf32be", "c09_o4_w_f32_be", "thorough", "write_f32_be", "5+3"), ("O4rf32be", "c09_o4_r_f32_be", "thorough", "read_f32_be", "5+3"),
        ("O4wf64", "c09_o4_w_f64_le", "thorough", "write_f64", "9+3"), ("O4rf64", "c09_o4_r_f64_le", "thorough", "read_f64 (NaN patterns come back as the canonical NaN, never as a forged tagged value)", "9+3"),
        ("O4wf64be", "c09_o4_w_f64_be", "thorough", "write_f64_be", "9+3"), ("O4rf64be", "c09_o4_r_f64_be", "thorough", "read_f64_be", "9+3"),
        ("O4swap", "c09_o4_swap", "quick", "swap (both indices checked before either byte moves)", "4+3"),
        ("O4reverse", "c09_o4_reverse", "thorough", "reverse of a sub-range", "4+3"),
        ("O4clone", "c09_o4_clone", "thorough", "clone (new handle is the freed slot or a fresh one, never a live buffer; copy equals the source)", "4+3"),
        ("O4resize", "c09_o4_resize", "thorough", "resize to an accepted size 1..=6 (prefix kept, growth zero-filled) or a refused size (<= 0, non-int, above MAX_ALLOC = 2^28); accepted sizes 7..=2^28 are outside the bound", "4+3"),
        ("O4equals", "c09_o4_equals", "quick", "equals (reads only; both handles must be live)", "3+3")):
    ob("C09", _oid, "runtime", "shell.rs", _h, path=SHELL_PATH + _h, tier=_tier, timeout=1800, args=(["--default-unwind", "10"] if _b == "9+3" else U7),
       what="byte buffers, %s: a legal access reads/writes exactly the addressed bytes; out of range, negative, straddling, freed or never-issued handles and non-numeric values are errors that change no byte of any buffer" % _what,
       functions=BYTES_FNS, bounds="two live buffers of %s symbolic bytes + one freed handle; every argument an arbitrary 64-bit Value" % _b, stubs=VM_STUBS)

ob("C01", "Unegf", "opt", "fold.rs", "c01_fold_unary_neg_float", path=FOLD_PATH + "c01_fold_unary_neg_float", tier="quick", timeout=600,
   what="unary minus on a float literal folds to exactly the VM's negation (sign bit flipped: -0.0 from 0.0)", functions=["aelys_opt ConstantFolder::try_fold_unary"],
   bounds="all f64 bit patterns", stubs=[])
ob("C01", "Uint", "opt", "fold.rs", "c01_fold_unary_int", path=FOLD_PATH + "c01_fold_unary_int", tier="quick", timeout=600,
   what="unary minus / bitwise not on an int literal fold to the VM's 48-bit result, and only for representable operands", functions=["aelys_opt ConstantFolder::try_fold_unary"],
   bounds="all i64", stubs=[])

# (c13_o3_makeclosure_ptr is not registered: no verdict in 1800 s even through the heap-pointer constant path - MakeClosure clones the
#  callee's upvalue descriptors and allocates two objects; a MakeClosure handler that collects inside a region is therefore NOT caught
#  by a solver obligation - the syntactic report below flags direct collect()/mark()/sweep() calls in handlers, informational only)


def _syn_no_direct_collect(repo, gen):
    """informational (not deciding): opcode handlers should reach the collector only through maybe_collect()"""
    import glob, re, os
    hits = []
    for f in sorted(glob.glob(os.path.join(repo, "runtime/src/vm/dispatch/ops/*.inc"))):
        for n, line in enumerate(open(f), 1):
            code = line.split("//")[0]
            if re.search(r"\bself\.collect\(|\.heap\.mark\(|\.heap\.sweep\(", code):
                hits.append("%s:%d" % (os.path.basename(f), n))
    return {"name": "handlers call maybe_collect(), never collect()/mark()/sweep() directly", "ok": not hits, "detail": ", ".join(hits)}


SYNTACTIC.setdefault("C13", []).append(_syn_no_direct_collect)
