BASELINE_OFF = ("cd /repo && cargo nextest run --workspace --no-fail-fast --tool-config-file pb:/w/lib/nextest.toml "
                "--profile pb --test-threads 8 --offline || cargo test --workspace --no-fail-fast --offline")
HOOKS = {
    "guard": "cfg(kani)",
    "enable": "set only by Kani's compiler wrapper: `cargo kani` compiles /repo's crates with --cfg kani; a normal cargo build/test never sets it",
    "baseline_off_cmd": BASELINE_OFF,
    "source_commits": ["b28bb74", "5b88d2d"],
    "add_only": True,
}
NOTES = ("Solver-based checking with Kani/CBMC of /repo's compiled code. Every check regenerates its harness shell from /repo's "
         "working tree (lib/shellgen.py), runs one cargo-kani query per obligation, and writes evidence/<id>.json. "
         "Timeouts, OOM and unsupported constructs are reported as UNDECIDED, never as success and never as VIOLATION.")

CLAIMS = {
    "C12": dict(
        text="Every 64-bit pattern / every i64 / every f64 / every 48-bit payload: CBMC decides the kind partition, exact read-back, "
             "checked/unchecked int construction and cross-kind equality of aelys_bytecode::Value with no bound at all (loop-free bit "
             "manipulation, so the SAT verdict covers the whole domain).",
        design_ref="DESIGN.md §2 C12",
        note="Trusted: Kani's translation and CBMC's IEEE-754 model. Display/Debug text is outside the claim.",
        technique="Kani/CBMC bounded model checking (SAT) of the real Value functions over full symbolic domains"),
}

CLAIMS["C04"] = dict(
    text="One solver query per opcode (174): the real handler text of ops/*.inc, re-instantiated in the generated reduced dispatch shell, is executed for one "
         "step from an arbitrary coherent frame state - instruction word, register contents, window base and position all symbolic, one heap object of every "
         "kind the handler dispatches on - and CBMC's pointer/bounds/overflow/panic/enum-validity checks plus 'cached locals match the new top frame' are the "
         "assertion. No verifier assumption is made (cache words and jump targets are unchecked, so accepted code can execute any word). The verifier itself is "
         "checked for totality and for the guarantees the handlers rely on, per container shape, and OpCode::from_u8 over all 256 bytes.",
    design_ref="DESIGN.md §2 C04",
    note="Bounds: 4-word function, 2 constants, 6 registers, base <= 2, heap pool per opcode family, 40-byte heap headroom, unwind 7; natives, formatting, "
         "stack traces and global-layout switching are stubbed; GC is off (no_gc_depth=1); debug_assert! compiled out (release configuration). Undecided "
         "obligations (timeouts) are listed in the evidence and are not counted as holding. Multi-step interplay beyond the frame invariant is outside.",
    technique="Kani/CBMC bounded model checking of the real opcode handlers (generated reduced dispatch shell), one SAT query per opcode")
CLAIMS["C18"] = dict(
    text="air/src/layout.rs is re-instantiated byte for byte; struct_layout is run on every struct of 0..4 fields whose types are symbolic among 15 leaf types "
         "and fixed arrays of them, and the result is compared with the declarative SysV rules (least padding per field, alignment = max field alignment, "
         "size = least multiple of the alignment covering the last field); align_to and references_by_value over their full small domains.",
    design_ref="DESIGN.md §2 C18",
    note="Out: nested structs by value and declaration-order independence / cycle diagnosis (string-keyed HashMap: one insert+get gave no verdict in 900 s), "
         "array lengths >= 2^32.",
    technique="Kani/CBMC bounded model checking of the re-instantiated layout kernel against declarative ABI rules")

NOT_APPLICABLE = {
    "C03": "every obligation must execute Heap::mark; on a fully concrete two-object heap CBMC needs ~290 s of symbolic execution and the SAT query does not finish in 14 min (object kinds read back from Vec<Option<GcObject>> are not constant-propagated, every kind's tracing loop and Vec growth is unrolled per worklist step); symbolic heaps are far beyond reach",
    "C11": "a negative reachability statement over HashMap<String,Value> globals, the native registry, module-path resolution, dynamic loading and real file/socket/process FFI; Kani cannot finish three inserts into a string-keyed map (>600 s) and does not model the syscalls",
    "C14": "histories of whole compile-and-run pipelines sharing string-keyed session tables through run_fast, which cannot be executed under CBMC (goto-instrument OOM at 40 GB); the one REPL mechanism in reach (call-site cache reuse) is decided under C05",
    "C16": "hash-map iteration order under a random RandomState and cloning of pipeline stage outputs keyed by (String,u64); Kani must stub the random state to run at all, which removes the nondeterminism in question",
    "C17": "lower/monomorphize are recursive transformations of Box-linked typed ASTs with name-keyed lookups; heap-shape explosion, no bit-level kernel",
    "C19": "file-system directory walks, import graphs and the loader's string tables; no kernel a solver can reach",
}
# not yet built (kept current as checks are added)
PENDING = {p: "check under construction in this session (see DESIGN.md); not claimed until its quick tier passes on the unchanged tree"
           for p in ["C01", "C02", "C05", "C06", "C07", "C08", "C09", "C10", "C13", "C15", "C20"]}
for _p, _r in PENDING.items():
    NOT_APPLICABLE.setdefault(_p, _r)
