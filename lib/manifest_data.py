BASELINE_OFF = ("cd /repo && cargo nextest run --workspace --no-fail-fast --tool-config-file pb:/w/lib/nextest.toml "
                "--profile pb --test-threads 8 --offline || cargo test --workspace --no-fail-fast --offline")
HOOKS = {
    "guard": "cfg(kani)",
    "enable": "set only by Kani's compiler wrapper: `cargo kani` compiles /repo's crates with --cfg kani; a normal cargo build/test never sets it",
    "baseline_off_cmd": BASELINE_OFF,
    "source_commits": [],
    "add_only": True,
}
NOTES = ("Solver-based checking with Kani/CBMC of /repo's compiled code. Every check regenerates its harness shell from /repo's "
         "working tree (lib/shellgen.py), runs one cargo-kani query per obligation, and writes evidence/<id>.json. "
         "Timeouts, OOM and unsupported constructs are reported as UNDECIDED, never as success and never as VIOLATION.")

CLAIMS = {
    "C12": dict(
        text="Every 64-bit pattern / every i64 / every f64 / every 48-bit payload: CBMC decides the kind partition, exact read-back, "
             "checked/unchecked int construction and cross-kind equality of aelys_bytecode::Value with no bound at all (loop-free bit "
             "manipulation, so the SAT verdict covers the whole domain).",
        design_ref="DESIGN.md §2 C12",
        note="Trusted: Kani's translation and CBMC's IEEE-754 model. Display/Debug text is outside the claim.",
        technique="Kani/CBMC bounded model checking (SAT) of the real Value functions over full symbolic domains"),
}

NOT_APPLICABLE = {
    "C03": "every obligation must execute Heap::mark; on a fully concrete two-object heap CBMC needs ~290 s of symbolic execution and the SAT query does not finish in 14 min (object kinds read back from Vec<Option<GcObject>> are not constant-propagated, every kind's tracing loop and Vec growth is unrolled per worklist step); symbolic heaps are far beyond reach",
    "C11": "a negative reachability statement over HashMap<String,Value> globals, the native registry, module-path resolution, dynamic loading and real file/socket/process FFI; Kani cannot finish three inserts into a string-keyed map (>600 s) and does not model the syscalls",
    "C14": "histories of whole compile-and-run pipelines sharing string-keyed session tables through run_fast, which cannot be executed under CBMC (goto-instrument OOM at 40 GB); the one REPL mechanism in reach (call-site cache reuse) is decided under C05",
    "C16": "hash-map iteration order under a random RandomState and cloning of pipeline stage outputs keyed by (String,u64); Kani must stub the random state to run at all, which removes the nondeterminism in question",
    "C17": "lower/monomorphize are recursive transformations of Box-linked typed ASTs with name-keyed lookups; heap-shape explosion, no bit-level kernel",
    "C19": "file-system directory walks, import graphs and the loader's string tables; no kernel a solver can reach",
}
# not yet built (kept current as checks are added)
PENDING = {p: "check under construction in this session (see DESIGN.md); not claimed until its quick tier passes on the unchanged tree"
           for p in ["C01", "C02", "C04", "C05", "C06", "C07", "C08", "C09", "C10", "C13", "C15", "C18", "C20"]}
for _p, _r in PENDING.items():
    NOT_APPLICABLE.setdefault(_p, _r)
