BASELINE_OFF = ("cd /repo && cargo nextest run --workspace --no-fail-fast --tool-config-file pb:/w/lib/nextest.toml "
                "--profile pb --test-threads 8 --offline || cargo test --workspace --no-fail-fast --offline")
HOOKS = {
    "guard": "cfg(kani)",
    "enable": "set only by Kani's compiler wrapper: `cargo kani` compiles /repo's crates with --cfg kani; a normal cargo build/test never sets it",
    "baseline_off_cmd": BASELINE_OFF,
    "source_commits": ["b28bb74", "5b88d2d", "3555166", "aed8fda"],
    "add_only": True,
}
NOTES = ("Solver-based checking with Kani/CBMC of /repo's compiled code. Every check regenerates its harness shell from /repo's "
         "working tree (lib/shellgen.py), runs one cargo-kani query per obligation, and writes evidence/<id>.json. "
         "Timeouts, OOM and unsupported constructs are reported as UNDECIDED, never as success and never as VIOLATION.")

CLAIMS = {
    "C12": dict(
        text="Every 64-bit pattern / every i64 / every f64 / every 48-bit payload: CBMC decides the kind partition, exact read-back, "
             "checked/unchecked int construction and cross-kind equality of aelys_bytecode::Value with no bound at all (loop-free bit "
             "manipulation, so the SAT verdict covers the whole domain).",
        design_ref="DESIGN.md §2 C12",
        note="Trusted: Kani's translation and CBMC's IEEE-754 model. Display/Debug text is outside the claim.",
        technique="Kani/CBMC bounded model checking (SAT) of the real Value functions over full symbolic domains"),
}

CLAIMS["C04"] = dict(
    text="One solver query per opcode (174): the real handler text of ops/*.inc, re-instantiated in the generated reduced dispatch shell, is executed for one "
         "step from an arbitrary coherent frame state - instruction word, register contents, window base and position all symbolic, one heap object of every "
         "kind the handler dispatches on - and CBMC's pointer/bounds/overflow/panic/enum-validity checks plus 'cached locals match the new top frame' are the "
         "assertion. No verifier assumption is made (cache words and jump targets are unchecked, so accepted code can execute any word). The verifier itself is "
         "checked for totality and for the guarantees the handlers rely on, per container shape, and OpCode::from_u8 over all 256 bytes.",
    design_ref="DESIGN.md §2 C04",
    note="Bounds: 4-word function, 2 constants, 6 registers, base <= 2, heap pool per opcode family, 40-byte heap headroom, unwind 7; natives, formatting, "
         "stack traces and global-layout switching are stubbed; GC is off (no_gc_depth=1); debug_assert! compiled out (release configuration). Undecided "
         "obligations (timeouts) are listed in the evidence and are not counted as holding. Multi-step interplay beyond the frame invariant is outside.",
    technique="Kani/CBMC bounded model checking of the real opcode handlers (generated reduced dispatch shell), one SAT query per opcode")
CLAIMS["C18"] = dict(
    text="air/src/layout.rs is re-instantiated byte for byte; struct_layout is run on every struct of 0..4 fields whose types are symbolic among 15 leaf types "
         "and fixed arrays of them, and the result is compared with the declarative SysV rules (least padding per field, alignment = max field alignment, "
         "size = least multiple of the alignment covering the last field); align_to and references_by_value over their full small domains.",
    design_ref="DESIGN.md §2 C18",
    note="Out: nested structs by value and declaration-order independence / cycle diagnosis (string-keyed HashMap: one insert+get gave no verdict in 900 s), "
         "array lengths >= 2^32.",
    technique="Kani/CBMC bounded model checking of the re-instantiated layout kernel against declarative ABI rules")


SHELL_NOTE = ("Trusted: Kani's MIR->GOTO translation, CBMC; lib/shellgen.py re-instantiates VM::run_fast's body per opcode group with four listed textual "
              "edits (self-checked) because the 4000-line loop cannot be executed in situ; stubs (RandomState, fmt::format, runtime_error's stack trace, "
              "native calls, global-layout switching) are listed per obligation in the evidence. GC never runs in an obligation (no_gc_depth=1).")
CLAIMS["C01"] = dict(
    text="Folding kernels only: for every operator, fold_int_binary / fold_float_binary are called with symbolic operands (full i64 x i64 for + - shifts, "
         "bit ops and comparisons; one operand <= 12 bits for *, divisor <= 8 bits for / %; all f64 bit patterns for float + - and comparisons) and whatever "
         "they fold must equal the VM's single-operation result (48-bit wrap, truncating division via the defining relation, & 63 shift mask), and nothing may "
         "be folded where the VM raises an error. C02's reference obligations tie the same reference to the real opcode handlers.",
    design_ref="DESIGN.md §2 C01",
    note="Out: constant propagation, dead-code elimination, inlining and their interactions (AST-shape reasoning over Strings and Boxes), float * / %, "
         "multiplication/division with both operands large. Hook: cfg(kani) child module of constant_fold::expr::binary (kernels are pub(super)).",
    technique="Kani/CBMC bounded model checking of the constant-folding kernels against the VM's operation semantics, one SAT query per operator")
CLAIMS["C02"] = dict(
    text="VM-side kernels only: (a) every generic arithmetic/comparison/shift/bit opcode handler, run for one step in the reduced dispatch shell on symbolic "
         "operands, equals a definitional single-operation evaluator written from the language spec; (b) Function::add_constant returns an index holding "
         "exactly the added value's bits for any two 64-bit Values; (c) CloseUpvals closes exactly the open upvalues at or above base+a and keeps the value, "
         "GetUpval/SetUpval go through the live register or the box, Return lands the value at caller_base+dest and resumes the caller, ForLoopI/ForLoopIInc/"
         "WhileLoopLt perform one iteration of the documented range semantics; frame-state coherence across every call opcode is decided under C04.",
    design_ref="DESIGN.md §2 C02",
    note=SHELL_NOTE + " Out: everything source-level (scoping, closures-by-reference across frames, for-each lowering), register allocation, float * / %.",
    technique="Kani/CBMC bounded model checking of the real opcode handlers against a definitional evaluator (differential single steps)")
CLAIMS["C05"] = dict(
    text="Single call steps from arbitrary cache states: for CallGlobal, CallGlobalMono and CallGlobalNative, with the two words after the instruction arbitrary "
         "and every call-site cache entry either empty or the entry of *either* of two live functions (slot ids are not unique across compilation units), the "
         "frame pushed runs the code of the function the global denotes now, or that native is called, or an error is reported; set_global_by_index leaves no "
         "cache entry; cache-word packing round-trips.",
    design_ref="DESIGN.md §2 C05",
    note=SHELL_NOTE + " Bounds: 2 callees + 1 native, cache of 2 entries, one global layout. Out: per-function layout switching, module boundaries, CallUpval (C04).",
    technique="Kani/CBMC bounded model checking of the real call handlers from arbitrary inline-cache states")
CLAIMS["C06"] = dict(
    text="Mechanism only: (a) every typed (II/FF) and guarded (IIG/FFG) opcode and its generic twin are executed from identical symbolic states and must end the "
         "same way (typed ones on operands of their type, guarded ones on any Values); (b) select_opcode over all operators x all leaf types: an unguarded "
         "typed opcode only for two operands of its class, int/float mixes get the guarded float form, anything else the generic opcode.",
    design_ref="DESIGN.md §2 C06",
    note=SHELL_NOTE + " Out: whether inference ever labels a dynamically-fed position certain (sema over string-keyed environments), float * / % pairs, "
         "Eq/Ne on NaN operands (generic Eq compares identical bits as equal).",
    technique="Kani/CBMC bounded model checking: differential execution of typed/guarded vs generic opcode handlers, plus exhaustive solver check of opcode selection")
CLAIMS["C09"] = dict(
    text="Manual-memory opcodes (Alloc, Free, LoadMem(I), StoreMem(I)) run for one step against an executable model from a manual heap with a live and a freed "
         "buffer, all operand registers arbitrary Values (negative, huge, non-int, null): legal accesses behave like an independent array, everything else is an "
         "error and changes nothing (including the allocator's free list), and the charge is exactly 8 bytes per live slot; every 2-operation history of the real "
         "ManualHeap API agrees with the model. Byte buffers: stdlib/bytes.rs re-instantiated; every 1/2/4-byte integer read and write (LE/BE, signed/unsigned), "
         "fill, copy (incl. overlapping), size, free and double free, with every argument an arbitrary Value, against a byte-array model of two live buffers "
         "and a freed handle.",
    design_ref="DESIGN.md §2 C09, §4a",
    note=SHELL_NOTE + " Out: 64-bit and float byte accessors, from_string/decode/find/write_string/resize/clone/equals, buffers longer than 4 bytes, "
         "histories longer than 2 from the empty heap except through the single-step obligations. Known finding: Free ignores negative handles.",
    technique="Kani/CBMC bounded model checking of the manual-memory handlers, ManualHeap API and byte-buffer natives against executable models")
CLAIMS["C10"] = dict(
    text="Budget arithmetic with a symbolic near-limit state (0..64 bytes of headroom): alloc_string, manual_alloc, alloc_array, check_element_request for every "
         "argument value: admitted iff the charge fits, charged exactly, otherwise OutOfMemory / InvalidAllocationSize with nothing charged and no overflow; "
         "VecPush growth at the limit.",
    design_ref="DESIGN.md §2 C10",
    note=SHELL_NOTE + " Out: byte-buffer natives, string natives (repeat/pad), merge_heap; Vec growth accounting is a recorded known finding.",
    technique="Kani/CBMC bounded model checking of the VM's allocation entry points from a symbolic near-limit heap state")
CLAIMS["C13"] = dict(
    text="VM mechanism only: EnterNoGc adds one at every depth (no saturation), ExitNoGc subtracts one or reports underflow at zero leaving depth 0, nothing else "
         "changes; maybe_collect starts a collection iff no region is open and the threshold is crossed (VM::collect replaced by a flag-setting stub); leaving an "
         "inner region never starts one; allocating opcodes (string concat, Alloc, ArrayNew, ArrayLit, StringForLoop) executed at depth 1..64 with the threshold "
         "crossed never start one; with the real collect and depth 1, 2 or 64, maybe_collect frees nothing.",
    design_ref="DESIGN.md §2 C13",
    note=SHELL_NOTE + " Out: that the compiler emits a matching exit on every return path, inlining, and restoration after a runtime error.",
    technique="Kani/CBMC bounded model checking of the no-gc depth handlers and maybe_collect")
CLAIMS["C20"] = dict(
    text="Opcode level, strings of 2-4 symbolic bytes assumed valid UTF-8, against an oracle that does not use the code under test (scalar width from the first "
         "byte; characters = non-continuation bytes): one StringForLoop step from any boundary offset yields exactly the scalar there and the next boundary "
         "(inductive step; base offset 0), StringLoadChar(s,i) for any Value i, len = byte length, string.char_len = number of scalars.",
    design_ref="DESIGN.md §2 C20",
    note=SHELL_NOTE + " VM::intern_string is stubbed by alloc_string. Out: strings longer than 4 bytes except through the inductive argument; source-level lowering.",
    technique="Kani/CBMC bounded model checking of the string opcode handlers against a first-byte UTF-8 oracle (inductive iteration step)")
CLAIMS["C07"] = dict(
    text="One front door only - loading/verification of untrusted function objects: verify_function on an arbitrary function object (first word fully "
         "symbolic incl. the opcode byte, arbitrary constants, per container shape) returns Ok or Err without panic, out-of-bounds index or overflow; "
         "OpCode::from_u8 over all 256 bytes never constructs an invalid enum value. Execution of whatever the verifier accepts is C04.",
    design_ref="DESIGN.md §2 C07",
    note="Out - most of the property, and stated as such: the binary reader (no verdict in 900 s on a 6-byte symbolic tail), the source lexer (a 5-way symbolic "
         "choice of a 6-10 character text: no verdict in 1500 s; fully concrete texts would be enumeration of runs, not a solver verdict), parser recursion and "
         "native stack depth (CBMC has no stack model), sema/optimiser/lowering, assembler text, manifests, allocation volume.",
    technique="Kani/CBMC bounded model checking of the real bytecode verifier on symbolic function objects")

NOT_APPLICABLE = {
    "C03": "every obligation must execute Heap::mark; on a fully concrete two-object heap CBMC needs ~290 s of symbolic execution and the SAT query does not finish in 14 min (object kinds read back from Vec<Option<GcObject>> are not constant-propagated, every kind's tracing loop and Vec growth is unrolled per worklist step); symbolic heaps are far beyond reach",
    "C08": "the binary reader cannot be symbolically executed within reach: deserialize(serialize(f)) for the smallest function (one word, one immediate constant) gave no verdict in 900 s, and a 6-byte symbolic tail after a fixed header none in 900 s (Cursor/Read plumbing and Vec growth per field); the one reload mechanism in reach, cold call sites, is decided under C05",
    "C11": "a negative reachability statement over HashMap<String,Value> globals, the native registry, module-path resolution, dynamic loading and real file/socket/process FFI; Kani cannot finish three inserts into a string-keyed map (>600 s) and does not model the syscalls",
    "C14": "histories of whole compile-and-run pipelines sharing string-keyed session tables through run_fast, which cannot be executed under CBMC (goto-instrument OOM at 40 GB); the one REPL mechanism in reach (call-site cache reuse) is decided under C05",
    "C15": "the layout rules live in the source lexer, which cannot be executed on symbolic text within reach: a 5-way symbolic choice of separator in a 6-10 character text gave no verdict in 1500 s (Vec<char>/String traffic per character); running it on fully concrete texts would be enumeration of concrete runs, which this technique family excludes; redundant parentheses need the parser/AST",
    "C16": "hash-map iteration order under a random RandomState and cloning of pipeline stage outputs keyed by (String,u64); Kani must stub the random state to run at all, which removes the nondeterminism in question",
    "C17": "lower/monomorphize are recursive transformations of Box-linked typed ASTs with name-keyed lookups; heap-shape explosion, no bit-level kernel",
    "C19": "file-system directory walks, import graphs and the loader's string tables; no kernel a solver can reach",
}
# not yet built (kept current as checks are added)
PENDING = {p: "check under construction in this session (see DESIGN.md); not claimed until its quick tier passes on the unchanged tree"
           for p in []}
for _p, _r in PENDING.items():
    NOT_APPLICABLE.setdefault(_p, _r)
