def generate(repo, gen, verif):
    return {}
