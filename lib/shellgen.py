"""Generates /verif/gen/shell.rs from /repo's *current* runtime/src/vm/dispatch/run.rs.

`VM::run_fast` cannot be symbolically executed in situ (goto-instrument runs out of memory on the 4000-line
loop).  The generator re-instantiates the body of run_fast once per opcode group, *verbatim* except for four
textual edits that are listed in EDITS below and are reported in the evidence:

  E1  `const REGISTER_STACK_SIZE: usize = 16384;`  ->  `= VERIF_REGS;`   (the register file the harness built)
  E2  after `loop {`            : stop-after-one-step logic that exports the loop's cached locals (StepOut)
  E3  after `let opcode_byte =` : `kani::assume(opcode_byte == OP); let opcode_byte: u8 = OP;` (OP const generic)
  E4  the dispatch `match`      : arms of other opcode groups are dropped; `include!("ops/x.inc")` gets an
                                  absolute path (the handler text itself is the repository's file, included as is)

Everything else (prologue, end-of-bytecode arm, fetch, the four register macros, the invalid-opcode arm) is
copied character for character; the generator checks that, after undoing E1-E4, the text equals the body
of run_fast, and refuses to produce a shell otherwise.
"""
import os, re, glob, hashlib


class GenError(Exception):
    pass


def _match_brace(text, open_idx):
    """index of the brace matching text[open_idx] == '{', skipping // comments, strings and char literals"""
    assert text[open_idx] == "{"
    depth, i, n = 0, open_idx, len(text)
    while i < n:
        c = text[i]
        if c == "/" and text.startswith("//", i):
            i = text.index("\n", i)
            continue
        if c == '"':
            i += 1
            while text[i] != '"':
                i += 2 if text[i] == "\\" else 1
        elif c == "{":
            depth += 1
        elif c == "}":
            depth -= 1
            if depth == 0:
                return i
        i += 1
    raise GenError("unbalanced braces")


ARM_RE = re.compile(r"(?P<lead>(?:[ \t]*//[^\n]*\n)*)[ \t]*(?P<pat>[0-9][0-9|.= \t\n]*?)\s*=>\s*\{\s*include!\(\"ops/(?P<file>\w+)\.inc\"\);\s*\}\n", re.S)

LOCALS = ["ip", "base", "func_ref", "bytecode_ptr", "bytecode_len", "constants_ptr", "constants_len",
          "upvalues_ptr", "upvalues_len", "current_frame_idx", "global_mapping_id"]


def parse_run_rs(repo):
    path = os.path.join(repo, "runtime/src/vm/dispatch/run.rs")
    src = open(path).read()
    m = re.search(r"pub fn run_fast\(&mut self\) -> Result<Value, RuntimeError> \{", src)
    if not m:
        raise GenError("run_fast signature not found")
    bo = m.end() - 1
    bc = _match_brace(src, bo)
    body = src[bo + 1:bc]
    uses = re.findall(r"^use [^;]+;\n", src[:m.start()], re.M | re.S)
    uses = "".join(u for u in re.findall(r"(?ms)^use .*?;\n", src[:m.start()]))
    # the dispatch match
    mm = re.search(r"match opcode_byte \{", body)
    if not mm:
        raise GenError("dispatch match not found")
    mo = mm.end() - 1
    mc = _match_brace(body, mo)
    table = body[mo + 1:mc]
    arms = []
    pos = 0
    for am in ARM_RE.finditer(table):
        if table[pos:am.start()].strip():
            raise GenError("unparsed text in dispatch table: %r" % table[pos:am.start()][:80])
        arms.append({"text": am.group(0), "pat": " ".join(am.group("pat").split()), "file": am.group("file")})
        pos = am.end()
    default = table[pos:]
    if not re.match(r"\s*_ => \{", default):
        raise GenError("default arm not found")
    if not arms:
        raise GenError("no arms")
    return {"path": path, "src": src, "uses": uses, "body": body, "pre": body[:mo + 1], "post": body[mc:],
            "arms": arms, "default": default, "table": table}


E1_FROM = "const REGISTER_STACK_SIZE: usize = 16384;"
E1_TO = "const REGISTER_STACK_SIZE: usize = VERIF_REGS;"
E2_ANCHOR = "        loop {\n"
E2_INS = ("            if !__first {\n"
          "                *__out = Some(StepOut { %s });\n"
          "                return Ok(Value::null());\n"
          "            }\n"
          "            __first = false;\n") % ", ".join(LOCALS)
E3_ANCHOR = "            let opcode_byte = (instr >> 24) as u8;\n"
E3_INS = ("            kani::assume(opcode_byte == OP);\n"
          "            let opcode_byte: u8 = OP;\n")


def pat_to_list(pat):
    out = []
    for part in pat.split("|"):
        part = part.strip()
        if "..=" in part:
            a, b = part.split("..=")
            out += list(range(int(a), int(b) + 1))
        else:
            out.append(int(part))
    return out


def build_step(info, arm, opsdir):
    pre = info["pre"]
    for anchor in (E1_FROM, E2_ANCHOR, E3_ANCHOR):
        if pre.count(anchor) != 1:
            raise GenError("anchor %r occurs %d times in run_fast" % (anchor.strip(), pre.count(anchor)))
    pre2 = pre.replace(E1_FROM, E1_TO).replace(E2_ANCHOR, E2_ANCHOR + E2_INS).replace(E3_ANCHOR, E3_ANCHOR + E3_INS)
    if arm is None:
        name, armtext = "invalid", ""
    else:
        name = arm["file"]
        armtext = arm["text"].replace('include!("ops/%s.inc")' % arm["file"], 'include!("%s/%s.inc")' % (opsdir, arm["file"]))
    fn = ("    #[allow(unused_unsafe, unused_assignments, unused_variables, unused_mut, unreachable_code, clippy::all)]\n"
          "    pub(crate) fn step_%s<const OP: u8>(&mut self, __out: &mut Option<StepOut>) -> Result<Value, RuntimeError> {\n"
          "        let mut __first = true;\n%s\n%s%s%s    }\n") % (name, pre2, armtext, info["default"], info["post"])
    # self-check: undoing the edits gives back the original text
    undo = pre2.replace(E3_ANCHOR + E3_INS, E3_ANCHOR).replace(E2_ANCHOR + E2_INS, E2_ANCHOR).replace(E1_TO, E1_FROM)
    if undo != pre:
        raise GenError("edit self-check failed")
    return name, fn


def generate(repo, gen, verif):
    os.makedirs(gen, exist_ok=True)
    info = parse_run_rs(repo)
    opsdir = os.path.join(repo, "runtime/src/vm/dispatch/ops")
    steps, groups = [], {}
    for arm in info["arms"]:
        if not os.path.exists(os.path.join(opsdir, arm["file"] + ".inc")):
            raise GenError("missing ops file " + arm["file"])
        name, fn = build_step(info, arm, opsdir)
        steps.append(fn)
        groups[name] = pat_to_list(arm["pat"])
    name, fn = build_step(info, None, opsdir)
    steps.append(fn)
    covered = sorted(set(sum(groups.values(), [])))
    groups["invalid"] = [o for o in range(256) if o not in covered]

    # E5: private stdlib natives are reached by re-instantiating their file inside a harness module; an `include!`d file may
    # not start with inner doc comments (`//!`), so those lines - comments only - are rewritten to `//`.
    for rel in ("runtime/src/stdlib/string.rs",):
        text = open(os.path.join(repo, rel)).read()
        fixed = re.sub(r"(?m)^//!", "//", text)
        if re.sub(r"(?m)^//", "", fixed) != re.sub(r"(?m)^//!?", "", text):
            raise GenError("E5 changed more than doc-comment markers in " + rel)
        dst = os.path.join(gen, os.path.basename(rel).replace(".rs", "_real.rs"))
        if not os.path.exists(dst) or open(dst).read() != fixed:
            open(dst, "w").write(fixed)

    inrepo = os.path.join(verif, "harness", "inrepo")
    parts = []
    parts.append("// GENERATED by /verif/lib/shellgen.py from %s -- do not edit\n" % info["path"])
    parts.append("#![allow(unused, clippy::all)]\n" if False else "")
    parts.append(info["uses"])
    parts.append("\n#[derive(Clone, Copy, Debug)]\npub(crate) struct StepOut {\n"
                 "    pub ip: usize, pub base: usize, pub func_ref: GcRef, pub bytecode_ptr: *const u32, pub bytecode_len: usize,\n"
                 "    pub constants_ptr: *const Value, pub constants_len: usize, pub upvalues_ptr: *const GcRef, pub upvalues_len: usize,\n"
                 "    pub current_frame_idx: usize, pub global_mapping_id: usize,\n}\n\n")
    parts.append("impl VM {\n" + "\n".join(steps) + "}\n\n")
    # opcode -> group dispatcher used by generated harnesses
    for f in sorted(glob.glob(os.path.join(inrepo, "*.rs"))):
        parts.append('include!("%s");\n' % f)
    # generated per-opcode harnesses
    import opgen
    gen_h = opgen.generate(repo, groups)
    open(os.path.join(gen, "ops_gen.rs"), "w").write(gen_h["text"])
    parts.append('include!("%s");\n' % os.path.join(gen, "ops_gen.rs"))
    text = "".join(parts)
    out = os.path.join(gen, "shell.rs")
    old = open(out).read() if os.path.exists(out) else None
    if old != text:
        open(out, "w").write(text)
    h = hashlib.sha256(info["body"].encode()).hexdigest()[:16]
    return {"run_rs": info["path"], "run_fast_body_sha256_16": h, "groups": {k: len(v) for k, v in groups.items()},
            "edits": ["E1 REGISTER_STACK_SIZE -> VERIF_REGS", "E2 stop-after-one-step + StepOut export", "E3 opcode fixed to const generic OP",
                      "E4 dispatch table reduced to one group, include! paths made absolute",
                      "E5 stdlib/string.rs copied with `//!` doc-comment markers turned into `//` (comments only) so it can be include!d"],
            "self_check": "undoing E1-E3 reproduces run_fast's text up to the dispatch table; table arms parsed without residue",
            "generated_op_harnesses": gen_h["count"]}


if __name__ == "__main__":
    import sys, json
    print(json.dumps(generate("/repo", "/verif/gen", "/verif"), indent=1))
