KNOWN_WITNESS = {}
def run(name, repo, work):
    return None, "no witness"
