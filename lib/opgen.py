"""Per-opcode harness generation: parses /repo's OpCode enum, maps each opcode to its dispatch group (from run.rs)
and emits one `c04_step!` harness per opcode."""
import os, re

POOL = {"scalar": "POOL_SCALAR", "call": "POOL_CALL", "coll": "POOL_COLL", "mem": "POOL_MEM", "clos": "POOL_CLOS"}


def opcode_table(repo):
    src = open(os.path.join(repo, "bytecode/src/bytecode/opcode.rs")).read()
    m = re.search(r"pub enum OpCode \{(.*?)\n\}", src, re.S)
    body = re.sub(r"//[^\n]*", "", m.group(1))
    ops, nxt = {}, 0
    for item in body.split(","):
        item = item.strip()
        if not item:
            continue
        mm = re.match(r"(\w+)(?:\s*=\s*(\d+))?$", item)
        if not mm:
            raise ValueError("cannot parse opcode item %r" % item)
        if mm.group(2) is not None:
            nxt = int(mm.group(2))
        ops[nxt] = mm.group(1)
        nxt += 1
    return ops


def pool_for(op, group):
    if group == "calls":
        return "call"
    if group == "arrays" or op in (177, 178, 179):
        return "coll"
    if group == "memory":
        return "mem" if op >= 28 else "scalar"
    if group == "closures":
        return "clos"
    if op == 2:
        return "clos"
    if op in (75, 76):
        return "call"
    return "scalar"


def low16(op):
    """stated bound on instruction words for opcodes whose immediates size a host container that is legitimately grown"""
    if op == 76:
        return "|w: u32| (w & 0xFFFF) <= 2"            # SetGlobalIdx grows globals_by_index to idx+1
    if op in (77, 78, 104):
        return "|w: u32| (w & 0xFFFF) <= 2 && ((w >> 16) & 0xFF) <= 5"   # slot id / global idx; dest sizes the register file
    if op in (80, 81):
        return "|w: u32| ((w >> 16) & 0xFF) <= 5"      # new_base = base + dest + 1: the register file is grown to fit
    return "|_w: u32| true"


def harness_name(op, name):
    return "c04_op_%03d_%s" % (op, name.lower())


def table(repo, groups):
    ops = opcode_table(repo)
    op2group = {}
    for g, lst in groups.items():
        for o in lst:
            op2group[o] = g
    rows = []
    for op in sorted(ops):
        g = op2group.get(op, "invalid")
        rows.append({"op": op, "name": ops[op], "group": g, "pool": pool_for(op, g), "harness": harness_name(op, ops[op])})
    # bytes that are not opcodes at all: one in the enum gap, one above the last opcode
    for op, nm in ((125, "gap125"), (255, "byte255")):
        if op not in ops:
            rows.append({"op": op, "name": nm, "group": op2group.get(op, "invalid"), "pool": "scalar", "harness": harness_name(op, nm)})
    return rows


def verifier_rows(rows):
    """concrete container shapes per verifier obligation (symbolic shapes do not finish): (tail words, constants, nested fn,
    nested upvalue descriptors, own upvalue descriptor)"""
    out = []
    for r in rows:
        op = r["op"]
        shapes = [(1, 1, False, 0, False)]
        if op in (77, 78, 104):
            shapes = [(0, 1, False, 0, False), (1, 1, False, 0, False), (2, 1, False, 0, False)]
        elif op in (2, 24, 25, 39):
            shapes = [(0, 0, False, 0, False), (1, 2, True, 0, False)]
        elif op == 35:
            shapes = [(0, 0, False, 0, False), (0, 1, False, 0, False), (0, 1, True, 0, False), (0, 2, True, 1, True)]
        elif op in (36, 37, 80, 81):
            shapes = [(1, 1, False, 0, False), (1, 1, False, 0, True)]
        for i, (tail, nconst, nested, nup, upval) in enumerate(shapes):
            out.append({"op": op, "name": r["name"], "harness": r["harness"].replace("c04_op_", "c04_vop_") + "_s%d" % i,
                        "tail": tail, "nconst": nconst, "nested": nested, "nup": nup, "upval": upval, "shape": i})
    return out


BITMAP = {"ShlII": "Shl", "ShrII": "Shr", "AndII": "BitAnd", "OrII": "BitOr", "XorII": "BitXor"}


def _op2group(groups):
    m = {}
    for g, lst in groups.items():
        for o in lst:
            m[o] = g
    return m


def pairs(repo, groups):
    """(typed or guarded opcode, generic twin, operand mode) by opcode *name*"""
    ops = opcode_table(repo)
    byname = {v: k for k, v in ops.items()}
    o2g = _op2group(groups)
    out = []
    for num in sorted(ops):
        name = ops[num]
        base, mode = None, None
        if name in BITMAP:
            base, mode = BITMAP[name], "MODE_INTS"
        elif name.endswith("IIG"):
            base, mode = name[:-3], "MODE_ANY"
        elif name.endswith("FFG"):
            base, mode = name[:-3], "MODE_PROMOTED"
        elif name.endswith("II"):
            base, mode = name[:-2], "MODE_INTS"
        elif name.endswith("FF"):
            base, mode = name[:-2], "MODE_FLOATS"
        if base is None or base not in byname:
            continue
        heavy = base in ("Mul", "Div", "Mod")
        if heavy and mode == "MODE_FLOATS":
            continue            # float * / % on two symbolic floats: CBMC's float multiplier/divider/fmod do not finish (outside the claim)
        if base == "Mod" and mode == "MODE_PROMOTED":
            continue            # fmod
        if heavy and mode == "MODE_PROMOTED":
            mode = "MODE_PROMOTED_SMALL_RIGHT"
        if heavy and mode == "MODE_ANY":
            mode = "MODE_NOFLOAT"
        if heavy and mode == "MODE_INTS":
            mode = "MODE_INTS_SMALL_RIGHT"
        if base in ("Eq", "Ne"):
            mode = {"MODE_ANY": "MODE_NONAN", "MODE_PROMOTED": "MODE_PROMOTED_NONAN", "MODE_FLOATS": None}.get(mode, mode)
            if mode is None:
                continue        # EqFF/NeFF on floats vs generic Eq/Ne differ exactly on NaN operands (see DESIGN C06)
        g = byname[base]
        out.append({"harness": "c06_pair_%03d_%s_vs_%s" % (num, name.lower(), base.lower()), "top": num, "tname": name,
                    "tgroup": o2g.get(num, "invalid"), "gop": g, "gname": base, "ggroup": o2g.get(g, "invalid"), "mode": mode})
    return out


def ref_rows(repo, groups):
    ops = opcode_table(repo)
    byname = {v: k for k, v in ops.items()}
    o2g = _op2group(groups)
    out = []
    for name, small in (("Add", False), ("Sub", False), ("Mul", True), ("Div", True), ("Mod", True), ("Lt", False), ("Le", False),
                        ("Gt", False), ("Ge", False), ("Shl", False), ("Shr", False), ("BitAnd", False), ("BitOr", False), ("BitXor", False)):
        if name in byname:
            n = byname[name]
            out.append({"harness": "c02_ref_%03d_%s" % (n, name.lower()), "op": n, "name": name, "group": o2g.get(n, "invalid"), "small": small})
    return out


def generate(repo, groups):
    rows = table(repo, groups)
    lines = ["// GENERATED per-opcode harnesses (lib/opgen.py) from bytecode/src/bytecode/opcode.rs + run.rs dispatch table\n"]
    ops = opcode_table(repo)
    lines.append("pub(crate) const VERIF_VALID_OPCODES: [bool; 256] = [%s];\n" % ", ".join("true" if i in ops else "false" for i in range(256)))
    for r in rows:
        lines.append("c04_step!(%s, step_%s, %d, %s, %s);\n" % (r["harness"], r["group"], r["op"], POOL[r["pool"]], low16(r["op"])))
    prs = pairs(repo, groups)
    for p in prs:
        lines.append("c06_pair!(%s, step_%s, %d, step_%s, %d, %s);\n" % (p["harness"], p["tgroup"], p["top"], p["ggroup"], p["gop"], p["mode"]))
    refs = ref_rows(repo, groups)
    for r in refs:
        lines.append("c02_ref!(%s, step_%s, %d, %s);\n" % (r["harness"], r["group"], r["op"], "true" if r["small"] else "false"))
    return {"text": "".join(lines), "count": len(rows) + len(prs) + len(refs), "rows": rows, "pairs": prs, "refs": refs}
