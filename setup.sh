#!/bin/sh
# offline setup: nothing to fetch; checks build their harness crates from /repo on every run.
set -e
cd "$(dirname "$0")"
mkdir -p .work evidence gen
export CARGO_NET_OFFLINE=true
cargo kani --version
python3 ./check --list > /dev/null
echo setup ok
